#!/bin/sh
# Builds /repo's working tree in the pinned configuration (no verification guard exists: the
# machinery uses zero source hooks) and runs the repository's own test suite.
set -e
REPO=${VERIF_REPO:-/repo}
B=${VERIF_BUILD:-/verif/build}/baseline
mkdir -p "$B"
cmake -G Ninja -S "$REPO" -B "$B" -DCMAKE_BUILD_TYPE=RelWithDebInfo -DCMAKE_CXX_FLAGS=-Wno-error -Wno-dev >"$B/verif-build.log" 2>&1
cmake --build "$B" -j "$(nproc)" >>"$B/verif-build.log" 2>&1 || { tail -50 "$B/verif-build.log"; exit 2; }
ctest --test-dir "$B" -j8 --timeout 900 "$@"
