"""C02(c): semantically equivalent formulations get the same verdict.

For every base program of 2-3 statements of the constraint-network pool (lib/fam_cn.py): all permutations
of the statements, an alpha-renaming of every identifier, and the insertion of each of three tautologies
(`true;`, `x <= x;`, `p | !p;`) at each position.  Verdicts (solved / no solution) within a class must
agree; when the reference decision procedure is available the common verdict must also be the right one
(that part is reported by fam_cn / C02(a))."""
import itertools
import fam_cn
from riddle import render


def rename(text):
    out, i = [], 0
    import re
    return re.sub(r"\b(x|y|p)\b", lambda m: {"x": "u_1", "y": "v", "p": "w0"}[m.group(1)], text)


TAUT = ["true;", "x <= x;", "p | !p;"]


def generate(thorough):
    S = fam_cn.pool(False)
    progs = []
    cls = 0
    k = 0
    idx = list(range(len(S)))
    combos = list(itertools.combinations(idx, 2))
    if thorough:
        combos += [c for i, c in enumerate(itertools.combinations(idx, 3)) if i % 7 == 0]
    else:
        combos = [c for i, c in enumerate(combos) if i % 2 == 0] + [c for i, c in enumerate(itertools.combinations(idx, 3)) if i % 41 == 0]
    for combo in combos:
        stmts = [S[i] for i in combo]
        cls += 1
        texts = [fam_cn.render_stmt(s) for _, s in stmts]
        variants = []
        for perm in itertools.permutations(range(len(texts))):
            variants.append(("perm" + "".join(map(str, perm)), " ".join(texts[i] for i in perm)))
        variants.append(("renamed", None))
        for t in TAUT:
            for pos in range(len(texts) + 1):
                variants.append(("taut[%s]@%d" % (t, pos), " ".join(texts[:pos] + [t] + texts[pos:])))
        for name, body in variants:
            k += 1
            if name == "renamed":
                text = rename("real x; real y; bool p; " + " ".join(texts))
            else:
                text = "real x; real y; bool p; " + body
            progs.append(("eq%d" % k, text, {"class": cls, "variant": name, "kinds": "+".join(sorted({kk for kk, _ in stmts})), "stmts": stmts}))
    return progs


def judge(prog, res):
    v = res.get("verdict")
    m = prog[2]
    if v in ("abort", "exception", "bad-json", "missing"):
        return ("C18:valid-program:%s:%s" % (v, m["kinds"]), "%s: %s" % (v, res.get("what", "")[:500]))
    if v == "reader-error":
        return ("C16:valid-program-rejected:" + m["kinds"] + ":" + m["variant"].split("@")[0], "the reader rejected the program: " + res.get("what", ""))
    return None


def judge_all(progs, results):
    """class-level oracle: returns list of (key, program text, message)"""
    out = []
    by = {}
    for p in progs:
        r = results.get(p[0], {"verdict": "missing"})
        v = r["verdict"]
        if v in ("solved",):
            g = "solvable"
        elif v in ("unsolvable", "inconsistent"):
            g = "no-solution"
        else:
            continue  # undecided / abnormal: reported elsewhere
        by.setdefault(p[2]["class"], []).append((g, p))
    for cls, items in by.items():
        groups = {g for g, _ in items}
        if len(groups) > 1:
            base = [p for g, p in items if p[2]["variant"].startswith("perm0")]
            # report the variant that disagrees with the majority
            n_s = sum(1 for g, _ in items if g == "solvable")
            minority = "solvable" if n_s * 2 < len(items) else "no-solution"
            odd = [p for g, p in items if g == minority][0]
            kind = odd[2]["variant"].split("[")[0].split("@")[0]
            kind = "permutation" if kind.startswith("perm") else kind
            kinds = odd[2]["kinds"]
            for weak in fam_cn.UNDECIDED_ATOM_KINDS:
                if weak in kinds.split("+"):
                    kinds = "involves-" + weak
                    break
            out.append(("C02:verdict-differs-within-equivalence-class:%s" % kinds, odd[1],
                        "variant '%s' is reported %s while %d of %d equivalent formulations are not (e.g. `%s`)" % (odd[2]["variant"], minority, len(items) - sum(1 for g, _ in items if g == minority), len(items), (base[0][1] if base else items[0][1][1]))))
    return out
