"""RIDDLE program descriptions: rendering to text, exact reference evaluation, and running the real
solver on batches of programs (harness/progrun).

Expressions are tuples:
  ("num", Fraction, text)      numeric literal (text is how it is spelled)
  ("bool", True/False)
  ("id", "a.b")                name (possibly qualified)
  ("un", op, e)                op in + - !
  ("nary", op, [e...])         op in + - * / & | ^
  ("bin", op, l, r)            op in == != < <= >= > ->
  ("cast", "T", e)
"""
import json, os, subprocess, sys, time
from fractions import Fraction as F

import vbuild

LEVEL = {"==": 0, "!=": 0, "<": 1, "<=": 1, ">=": 1, ">": 1, "->": 1, "|": 1, "&": 1, "^": 1, "+": 2, "-": 2, "*": 3, "/": 3}


def level(e):
    k = e[0]
    if k in ("num", "bool", "id"):
        # a negative literal is spelled with a unary minus
        if k == "num" and e[1] < 0:
            return 4
        return 5
    if k == "un":
        return 4
    if k == "cast":
        return 5
    return LEVEL[e[1]]


def render(e, full=False):
    k = e[0]
    if k == "num":
        return e[2]
    if k == "bool":
        return "true" if e[1] else "false"
    if k == "id":
        return e[1]
    if k == "cast":
        inner = render(e[2], full)
        return "((%s) %s)" % (e[1], inner if e[2][0] in ("num", "bool", "id") and level(e[2]) == 5 else "(" + inner + ")")

    def wrap(c, need):
        s = render(c, full)
        composite = level(c) < 5
        return "(" + s + ")" if (need or (full and composite)) else s

    if k == "un":
        return e[1] + wrap(e[2], level(e[2]) < 4 or (level(e[2]) == 4 and e[1] in "+-"))
    if k == "bin":
        L = LEVEL[e[1]]
        l, r = e[2], e[3]
        return wrap(l, level(l) < L) + " " + e[1] + " " + wrap(r, level(r) <= L)
    if k == "nary":
        L = LEVEL[e[1]]
        parts = []
        for i, c in enumerate(e[2]):
            if i == 0:
                need = level(c) < L or (level(c) == L and c[0] == "nary" and c[1] == e[1])
            else:
                need = level(c) <= L
            parts.append(wrap(c, need))
        return (" " + e[1] + " ").join(parts)
    raise ValueError(e)


XOR_DISTINCT = False  # see eval_expr: reading of '^' with a repeated operand


def eval_both(e, env):
    """values of e under both readings of '^' with repeated operands (a set of 1 or 2 values)"""
    global XOR_DISTINCT
    XOR_DISTINCT = False
    a = eval_expr(e, env)
    XOR_DISTINCT = True
    b = eval_expr(e, env)
    XOR_DISTINCT = False
    return {a, b} if not isinstance(a, tuple) or True else {a}


# ---- exact evaluation ------------------------------------------------------------------------------
# numeric values are (Fraction, Fraction eps); booleans True/False/None (unknown)

def num(v, eps=0):
    return (F(v), F(eps))


def eval_expr(e, env):
    k = e[0]
    if k == "num":
        return num(e[1])
    if k == "bool":
        return e[1]
    if k == "id":
        return env.get(e[1])
    if k == "cast":
        return eval_expr(e[2], env)
    if k == "un":
        v = eval_expr(e[2], env)
        if v is None:
            return None
        if e[1] == "!":
            return not v
        return v if e[1] == "+" else (-v[0], -v[1])
    if k == "nary":
        vs = [eval_expr(c, env) for c in e[2]]
        op = e[1]
        if op in "&|^":
            if op == "&":
                if any(v is False for v in vs):
                    return False
                return None if any(v is None for v in vs) else True
            if op == "|":
                if any(v is True for v in vs):
                    return True
                return None if any(v is None for v in vs) else False
            if any(v is None for v in vs):
                return None
            if XOR_DISTINCT:  # alternative reading: operands that are the same expression count once
                seen, keep = set(), []
                for c, v in zip(e[2], vs):
                    t = render(c, True)
                    if t not in seen:
                        seen.add(t)
                        keep.append(v)
                vs = keep
            return sum(1 for v in vs if v) == 1
        if any(v is None for v in vs):
            return None
        acc = vs[0]
        for v in vs[1:]:
            if op == "+":
                acc = (acc[0] + v[0], acc[1] + v[1])
            elif op == "-":
                acc = (acc[0] - v[0], acc[1] - v[1])
            elif op == "*":
                # linear programs: at most one factor carries an eps part / is non-constant
                acc = (acc[0] * v[0], acc[0] * v[1] + acc[1] * v[0])
            else:
                if v[0] == 0:
                    return None
                acc = (acc[0] / v[0], acc[1] / v[0])
        return acc
    if k == "bin":
        op = e[1]
        l, r = eval_expr(e[2], env), eval_expr(e[3], env)
        if op == "->":
            if l is False or r is True:
                return True
            if l is None or r is None:
                return None
            return False
        if l is None or r is None:
            return None
        if op == "==":
            return l == r
        if op == "!=":
            return l != r
        if op == "<":
            return l < r
        if op == "<=":
            return l <= r
        if op == ">=":
            return l >= r
        if op == ">":
            return l > r
    raise ValueError(e)


def is_const(e, variables):
    """True if the expression mentions none of the names in `variables`."""
    k = e[0]
    if k in ("num", "bool"):
        return True
    if k == "id":
        return e[1] not in variables
    if k in ("un", "cast"):
        return is_const(e[2], variables)
    if k == "nary":
        return all(is_const(c, variables) for c in e[2])
    return is_const(e[2], variables) and is_const(e[3], variables)


def lit(v, text=None):
    v = F(v)
    if text is None:
        if v.denominator == 1:
            text = "%d.0" % v.numerator if v >= 0 else "-%d.0" % -v.numerator
        else:
            text = repr(float(v))
            assert F(text) == v, (text, v)
    if v < 0 and not text.startswith("-"):
        text = "-" + text
    return ("num", v, text)


def intlit(v):
    return ("num", F(v), str(v))


# ---- values out of the solver's JSON --------------------------------------------------------------------
def jnum(v):
    r = F(v["num"], v["den"]) if v["den"] != 0 else None
    e = F(0)
    if "inf" in v:
        e = F(v["inf"]["num"], v["inf"]["den"])
    return (r, e)


def value_of(entry):
    """entry: {"name","type","value"} of an 'exprs' / 'pars' list -> python value."""
    t, v = entry["type"], entry["value"]
    if t in ("real", "int", "tp"):
        return jnum(v)
    if t == "bool":
        return {"True": True, "False": False}.get(v["val"])
    if t == "string":
        return ("str", v)
    if isinstance(v, dict) and "vals" in v:
        return ("var", sorted(v["vals"]))
    return ("obj", v)


def env_of(entries, prefix=""):
    return {prefix + e["name"]: value_of(e) for e in entries}


# ---- running programs ------------------------------------------------------------------------------------
def run_programs(cfg, programs, after_read=False, limit_ms=20000, tag="prog"):
    """programs: list of (id, text).  Returns {id: result dict}."""
    vbuild.ensure_tree(cfg)
    exe = vbuild.ensure_harness(cfg, "progrun")
    tmp = os.path.join(vbuild.BUILD, "tmp")
    os.makedirs(tmp, exist_ok=True)
    nshards = min(vbuild.JOBS, max(1, len(programs) // 4))
    procs = []
    env = dict(os.environ)
    env.setdefault("ASAN_OPTIONS", "detect_leaks=0:abort_on_error=1")
    for s in range(nshards):
        inp = os.path.join(tmp, "%s.%d.%d.in" % (tag, os.getpid(), s))
        outp = os.path.join(tmp, "%s.%d.%d.out" % (tag, os.getpid(), s))
        with open(inp, "w") as f:
            for pid, text in programs[s::nshards]:
                f.write("#### %s\n%s\n" % (pid, text))
        cmd = [exe, "--in", inp, "--out", outp, "--limit_ms", str(limit_ms), "--jobs", "1"]
        if after_read:
            cmd.append("--after_read")
        procs.append((subprocess.Popen(cmd, env=env), inp, outp))
    res = {}
    for p, inp, outp in procs:
        p.wait()
        with open(outp) as f:
            for l in f:
                try:
                    d = json.loads(l)
                except ValueError as ex:
                    d = {"id": "?", "verdict": "bad-json", "what": l[:300]}
                    # recover the id
                    i = l.find('"id":"')
                    if i >= 0:
                        d["id"] = l[i + 6:l.find('"', i + 6)]
                res[d["id"]] = d
        os.remove(inp)
        os.remove(outp)
    return res


# ---- generic Fourier-Motzkin (small systems) ---------------------------------------------------------------
def fm_feasible_n(rows, nvars):
    """rows: (coeffs tuple of length nvars, bound, strict) meaning sum c_i v_i <= bound (or <)."""
    rows = [(tuple(F(c) for c in r[0]), F(r[1]), bool(r[2])) for r in rows]
    for var in range(nvars):
        pos = [r for r in rows if r[0][var] > 0]
        neg = [r for r in rows if r[0][var] < 0]
        rest = [r for r in rows if r[0][var] == 0]
        for p in pos:
            for q in neg:
                fp, fq = 1 / p[0][var], 1 / -q[0][var]
                rest.append((tuple(a * fp + b * fq for a, b in zip(p[0], q[0])), p[1] * fp + q[1] * fq, p[2] or q[2]))
        # drop duplicates to keep the system small
        rows = list({(r[0], r[1], r[2]) for r in rest})
    for c, b, s in rows:
        if b < 0 or (s and b <= 0):
            return False
    return True


# ---- solution access ----------------------------------------------------------------------------------------
class Solution:
    def __init__(self, res):
        self.res = res
        sol = res.get("solution") or {}
        self.sol = sol
        self.env = env_of(sol.get("exprs", []))
        self.items = {it["id"]: it for it in sol.get("items", [])}
        self.atoms = {}
        for a in sol.get("atoms", []):
            self.atoms[a["id"]] = {"id": a["id"], "pred": a["predicate"], "state": a["state"], "pars": env_of(a.get("pars", []))}
        self.causal = {a["id"]: a for a in (res.get("atoms") or [])}
        self.names = {}
        for k, v in self.env.items():
            if isinstance(v, tuple) and v and v[0] == "obj":
                self.names.setdefault(v[1], k)

    def name(self, oid):
        return self.names.get(oid, "#%s" % oid)

    def atom_named(self, name):
        v = self.env.get(name)
        if isinstance(v, tuple) and v[0] == "obj":
            return self.atoms.get(v[1])
        return None

    def item_fields(self, oid):
        it = self.items.get(oid)
        return env_of(it.get("exprs", [])) if it else {}
