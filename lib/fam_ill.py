"""C18 (first sentence): syntactically valid but ill-typed programs.

Every binary operator of the language applied to EVERY ordered pair of operands drawn from one representative per
type {bool variable, bool literal, real variable, real literal, object, string literal}, as a statement, as an
initialiser, inside a disjunct and inside the rule of a goal; unary operators on every operand.  Well-typed
combinations are in the set too (they are simply solved).  The only thing judged here is C18: reading / solving
either succeeds or fails with a reported error - no abort, no signal, no hang.
"""
import itertools

OPERANDS = {"bool-var": "p", "bool-lit": "true", "real-var": "a", "real-lit": "2.0", "object": "o", "string": '"s"'}
BINOPS = ["<", "<=", ">=", ">", "==", "!=", "+", "-", "*", "/", "|", "&", "^", "->"]
UNOPS = ["!", "-", "+"]
HEAD = "class A { } A o = new A(); real a; bool p; "


def generate(thorough):
    progs = []
    k = 0

    def add(text, meta):
        nonlocal k
        k += 1
        progs.append(("il%d" % k, text, meta))
    places = [("statement", HEAD + "%s;"), ("disjunct", HEAD + "{ %s; } or { a >= 1.0; }"),
              ("rule", HEAD + "predicate G() { %s; } goal g = new G();")]
    if thorough:
        places += [("bool-initialiser", HEAD + "bool z = %s;"), ("real-initialiser", HEAD + "real z = %s;")]
    for op in BINOPS:
        for (ln, l), (rn, r) in itertools.product(OPERANDS.items(), repeat=2):
            for pn, pat in places:
                add(pat % ("%s %s %s" % (l, op, r)), {"op": op, "types": ln + "," + rn, "place": pn})
    for op in UNOPS:
        for ln, l in OPERANDS.items():
            for pn, pat in places:
                add(pat % ("%s%s" % (op, l)), {"op": "u" + op, "types": ln, "place": pn})
    # a relation between a boolean sub-expression and a number (what an unparenthesised `x <= 0.0 | x >= 2.0` denotes)
    add(HEAD + "a <= 0.0 | a >= 2.0;", {"op": "mixed", "types": "relation|relation-unparenthesised", "place": "statement"})
    return progs


def judge(prog, res):
    pid, text, m = prog
    v = res.get("verdict")
    tag = "%s:%s" % (m["op"], m["types"].split(",")[0].split("-")[0] + ("," + m["types"].split(",")[1].split("-")[0] if "," in m["types"] else ""))
    if v in ("abort", "bad-json", "missing"):
        return ("C18:ill-typed-program:%s:%s" % (v, tag), "%s: %s" % (v, res.get("what", "")[:600]))
    if v == "timeout":
        return ("C18:ill-typed-program:no-answer-within-limit:%s" % tag, res.get("what", ""))
    return None  # solved, unsolvable, inconsistent, reader-error, exception: all are answers
