#!/usr/bin/env python3
"""known_findings.json editor (by hand, at commit time only):
   kf.py fixed PROP KEY 'commit subject fragment' 'case' 'what failed'
   kf.py open  PROP KEY 'case' 'what fails'"""
import json, subprocess, sys, os
P = os.path.join(os.path.dirname(os.path.dirname(os.path.abspath(__file__))), "known_findings.json")
K = json.load(open(P)) if os.path.exists(P) else []
def sha(frag):
    for l in subprocess.check_output(['git', '-C', '/repo', 'log', '--format=%h %s']).decode().splitlines():
        if frag in l:
            return l.split()[0]
    raise SystemExit('no commit matching ' + frag)
mode, prop, key = sys.argv[1:4]
K = [k for k in K if not (k['property'] == prop and k['key'] == key)]
if mode == 'fixed':
    c = sha(sys.argv[4])
    K.append({"property": prop, "key": key, "status": "fixed", "commit": c, "case": sys.argv[5],
              "what": "fixed: property=%s %s %s" % (prop, c, sys.argv[6])})
else:
    K.append({"property": prop, "key": key, "status": "open", "case": sys.argv[4], "what": sys.argv[5]})
json.dump(K, open(P, 'w'), indent=1)
