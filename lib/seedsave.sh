#!/bin/bash
# seedsave.sh <ID> <dest-name>: copy a confirmed seeded change (patch, demonstration, notes) into /verif/seeded/<dest-name>
ID=$1; D=/verif/seeded/${2:-$1}; S=/tmp/seed-$ID
mkdir -p $D
cp $S/patch.diff $D/
for f in $S/*.cpp $S/*.sh $S/*.md $S/*.rddl $S/*.py $S/*.txt; do [ -f "$f" ] && [ $(stat -c %s "$f") -lt 200000 ] && cp "$f" $D/; done
for d in variants extra; do [ -d $S/$d ] && mkdir -p $D/$d && find $S/$d -maxdepth 1 -type f -size -100k \( -name '*.rddl' -o -name '*.cpp' -o -name '*.md' -o -name '*.py' -o -name '*.sh' \) -exec cp {} $D/$d/ \; ; done
ls -la $D
