#!/bin/bash
# seedrun.sh <patch.diff> <ID> [tier] : run one registered check against /repo with a seeded change applied, then undo
# the change and put back the evidence file of the last run on the unchanged tree (evidence is only ever committed
# from runs against /repo as it stands).
P=$1; ID=$2; TIER=${3:-quick}
cd /verif
[ -n "$(git -C /repo status --porcelain --untracked-files=no)" ] && { echo "/repo is not clean"; exit 2; }
cp evidence/$ID.json /tmp/ev-$ID.json.keep 2>/dev/null
git -C /repo apply "$P" || exit 2
./check $ID $TIER; rc=$?
git -C /repo checkout -- .
[ -f /tmp/ev-$ID.json.keep ] && mv /tmp/ev-$ID.json.keep evidence/$ID.json
echo "seedrun: $ID $TIER exit=$rc"
exit $rc
