"""C16 (b-d): expression evaluation at program level.

Arithmetic: every tree of depth <= 2 over leaves {a (variable pinned to 3 by a constraint), b (alias of the
constant -2), 2, 0.5} with unary + -, n-ary + - * / (n <= 3), linear (at most one non-constant factor,
constant non-zero divisors), rendered with minimal and with full parentheses as
    real a; a == 3.0; real b = -2.0; real r; r == <e>;
and r is read back from the solution.  Boolean: every tree over {p, q, true, a < b, a >= 3.0} with
! & | ^ -> == != for every truth assignment of p, q as
    bool p; bool q; <p or !p>; <q or !q>; real a; a == 3.0; real b = -2.0; bool r; r == (<e>);
Placements: the depth <= 1 arithmetic trees also as field initialiser, constructor argument,
predicate argument and rule-body constraint.
"""
import itertools
from fractions import Fraction as F
from riddle import render, eval_expr, eval_both, is_const, lit, intlit, num, env_of, run_programs

A, B = ("id", "a"), ("id", "b")
TWO, HALF = intlit(2), lit(F(1, 2), "0.5")
ENV = {"a": num(3), "b": num(-2)}
VARS = {"a"}


def arith_ok(e):
    """linear as the reader sees it: products with <= 1 non-constant factor, constant non-zero divisors"""
    k = e[0]
    if k in ("num", "id"):
        return True
    if k == "un":
        return arith_ok(e[2])
    if k == "nary":
        if not all(arith_ok(c) for c in e[2]):
            return False
        if e[1] == "*":
            return sum(0 if is_const(c, VARS) else 1 for c in e[2]) <= 1
        if e[1] == "/":
            for c in e[2][1:]:
                if not is_const(c, VARS):
                    return False
                v = eval_expr(c, ENV)
                if v is None or v[0] == 0:
                    return False
        return True
    return False


def arith_level1(leaves, ternary=True):
    out = []
    for u in "+-":
        for l in leaves:
            out.append(("un", u, l))
    for op in "+-*/":
        for n in (2, 3) if ternary else (2,):
            for kids in itertools.product(leaves, repeat=n):
                out.append(("nary", op, list(kids)))
    return [e for e in out if arith_ok(e)]


def arith_trees(thorough):
    leaves = [A, B, TWO, HALF]
    d1 = arith_level1(leaves)
    small = [A, TWO] if not thorough else [A, B, TWO]
    d1s = arith_level1(small, ternary=thorough)
    pool = small + d1s
    d2 = []
    for u in "+-":
        for k in d1s:
            d2.append(("un", u, k))
    for op in "+-*/":
        for x in pool:
            for y in pool:
                if x[0] in ("num", "id") and y[0] in ("num", "id"):
                    continue
                d2.append(("nary", op, [x, y]))
    d2 = [e for e in d2 if arith_ok(e)]
    return leaves, d1, d2


P, Q, TRUE = ("id", "p"), ("id", "q"), ("bool", True)
R1, R2 = ("bin", "<", A, B), ("bin", ">=", A, lit(3))


def bool_level1(leaves, ternary=True):
    out = [("un", "!", l) for l in leaves]
    for op in "&|^":
        for n in (2, 3) if ternary else (2,):
            for kids in itertools.product(leaves, repeat=n):
                out.append(("nary", op, list(kids)))
    for op in ("->", "==", "!="):
        for l in leaves:
            for r in leaves:
                out.append(("bin", op, l, r))
    return out


def bool_trees(thorough):
    leaves = [P, Q, TRUE, R1, R2]
    d1 = bool_level1(leaves, ternary=True)
    small = [P, Q] if not thorough else [P, Q, R1]
    d1s = bool_level1(small, ternary=False)
    pool = small + d1s
    d2 = [("un", "!", k) for k in d1s]
    for op in "&|^":
        for x in pool:
            for y in pool:
                if x[0] == "id" and y[0] == "id":
                    continue
                d2.append(("nary", op, [x, y]))
    for op in ("->", "==", "!="):
        for x in pool:
            for y in pool:
                if x[0] == "id" and y[0] == "id":
                    continue
                d2.append(("bin", op, x, y))
    return leaves, d1, d2


def retype(e):
    k = e[0]
    if k == "num" and "." not in e[2]:
        return lit(e[1])
    if k == "un":
        return ("un", e[1], retype(e[2]))
    if k == "nary":
        return ("nary", e[1], [retype(c) for c in e[2]])
    return e


def subexprs(e):
    yield e
    k = e[0]
    if k in ("un", "cast"):
        yield from subexprs(e[2])
    elif k == "nary":
        for c in e[2]:
            yield from subexprs(c)
    elif k == "bin":
        yield from subexprs(e[2])
        yield from subexprs(e[3])


def cause_class(m):
    """names the language feature a failing program exercises beyond plain operators, so that a known
    defect of that feature does not mask unrelated failures"""
    e = m["expr"]
    if m["kind"] == "bool":
        env = dict(ENV)
        env.update({"p": m["p"], "q": m["q"]})
        for sub in subexprs(e):
            if (sub[0] == "nary" and sub[1] == "|") or (sub[0] == "bin" and sub[1] == "->"):
                if eval_expr(sub, env) is False:
                    return "false-disjunction-subexpression"
        for sub in subexprs(e):
            if sub[0] == "nary" and sub[1] == "^":
                return "exactly-one-subexpression"
    return shape(e)


def shape(e):
    """a short name for the operator pattern of a tree (used in finding keys)"""
    k = e[0]
    if k in ("num", "id", "bool"):
        return "leaf"
    if k == "un":
        inner = e[2]
        return "unary" + e[1] + ("" if inner[0] in ("num", "id", "bool") else "(" + (inner[1] if inner[0] != "cast" else "cast") + ")")
    if k == "nary":
        sub = sorted({c[1] for c in e[2] if c[0] in ("un", "nary", "bin")})
        return e[1] + ("%d" % len(e[2])) + ("[" + ",".join(sub) + "]" if sub else "")
    if k == "bin":
        sub = sorted({c[1] for c in (e[2], e[3]) if c[0] in ("un", "nary", "bin")})
        return e[1] + ("[" + ",".join(sub) + "]" if sub else "")
    return k


PLACEMENTS = {
    "stmt": ("real a; a == 3.0; real b = -2.0; real r; r == %s;", "r"),
    "init": ("real a; a == 3.0; real b = -2.0; real r = %s;", "r"),
    "field": ("real a; a == 3.0; real b = -2.0; class C { real f = %s; } C c = new C();", "c.f"),
    "ctor-arg": ("real a; a == 3.0; real b = -2.0; class C { real f; C(real x) : f(x) {} } C c = new C(%s);", "c.f"),
    "ctor-body": ("real a; a == 3.0; real b = -2.0; class C { real f; C() { f == %s; } } C c = new C();", "c.f"),
    "fact-arg": ("real a; a == 3.0; real b = -2.0; predicate P(real x) { false; } fact f = new P(x: %s);", "f.x"),
    "goal-arg": ("real a; a == 3.0; real b = -2.0; predicate P(real x) { x >= -100.0; } goal g = new P(x: %s);", "g.x"),
    "rule-body": ("real a; a == 3.0; real b = -2.0; predicate P(real x) { x == %s; } goal g = new P();", "g.x"),
    "block": ("real a; a == 3.0; real b = -2.0; real r; { r == %s; }", "r"),
    "disjunct": ("real a; a == 3.0; real b = -2.0; real r; { r == %s; } or { r == %s; }", "r"),
}


def generate(thorough):
    progs = []  # (id, text, meta)
    leaves, d1, d2 = arith_trees(thorough)
    n = 0
    for depth, trees in ((0, leaves), (1, d1), (2, d2)):
        for e in trees:
            exp = eval_expr(e, ENV)
            for full in (False, True):
                if full and depth == 0:
                    continue
                txt = render(e, full)
                for pl, (pat, where) in PLACEMENTS.items():
                    if pl != "stmt" and (depth > 1 or (full and not thorough)):
                        continue
                    if pl in ("field",) and not is_const(e, VARS) and False:
                        continue
                    e2, txt2 = e, txt
                    if pl in ("ctor-arg", "fact-arg", "goal-arg"):
                        # an int-typed argument is not assignable to a real parameter (no implicit coercion in the
                        # language as implemented; not judged here): spell the integer literal as a real
                        e2 = retype(e)
                        txt2 = render(e2, full)
                    n += 1
                    pid = "ar%d" % n
                    progs.append((pid, pat.replace("%s", txt2), {"kind": "arith", "expr": e2, "text": txt2, "expected": exp, "where": where, "placement": pl, "full": full}))
    bl, b1, b2 = bool_trees(thorough)
    for depth, trees in ((0, bl), (1, b1), (2, b2)):
        for e in trees:
            for pv in (True, False):
                for qv in (True, False):
                    env = dict(ENV)
                    env.update({"p": pv, "q": qv})
                    exp = eval_expr(e, env)
                    alts = eval_both(e, env)
                    for full in (False, True):
                        if full and (depth == 0 or (depth == 2 and not thorough)):
                            continue
                        txt = render(("bin", "==", ("id", "r"), e), full)
                        n += 1
                        pid = "bo%d" % n
                        text = "bool p; bool q; %s; %s; real a; a == 3.0; real b = -2.0; bool r; %s;" % ("p" if pv else "!p", "q" if qv else "!q", txt)
                        progs.append((pid, text, {"kind": "bool", "expr": e, "text": txt, "expected": exp, "accept": alts, "where": "r", "placement": "stmt", "full": full, "p": pv, "q": qv}))
    return progs


def lookup(sol, path):
    """value of a dotted name in the solution document"""
    env = env_of(sol.get("exprs", []))
    parts = path.split(".")
    v = env.get(parts[0])
    for p in parts[1:]:
        if v is None or v[0] != "obj":
            return None
        oid = v[1]
        found = None
        for coll, key in (("items", "exprs"), ("atoms", "pars")):
            for it in sol.get(coll, []):
                if it["id"] == oid:
                    found = env_of(it.get(key, []))
        if found is None:
            return None
        v = found.get(p)
    return v


def judge(prog, res):
    """returns None or (key, message)"""
    pid, text, m = prog
    v = res.get("verdict")
    sh = cause_class(m)
    pl = "" if m["placement"] == "stmt" else ":" + m["placement"]
    if v in ("abort", "timeout", "exception", "bad-json"):
        return ("C18:valid-program:%s:%s%s" % (v, sh, pl), "%s: %s" % (v, res.get("what", "")[:600]))
    if v == "reader-error":
        return ("C16:valid-program-rejected:%s%s" % (sh, pl), "the reader rejected the program: " + res.get("what", ""))
    if v in ("unsolvable", "inconsistent"):
        return ("C16:eval:%s:reported-%s:%s%s" % (m["kind"], v, sh, pl), "the program pins every leaf and defines r by an equation, yet it is reported " + v)
    got = lookup(res["solution"], m["where"])
    exp = m["expected"]
    if got != exp and got not in m.get("accept", ()):
        return ("C16:eval:%s:wrong-value:%s%s" % (m["kind"], sh, pl), "%s evaluates to %s, the solution reports %s" % (m["text"], fmt(exp), fmt(got)))
    return None


def fmt(v):
    if isinstance(v, tuple) and len(v) == 2 and isinstance(v[0], F):
        return str(v[0]) + ("" if v[1] == 0 else " + %s eps" % v[1])
    return str(v)
