"""C03 (+ rule bodies for C01, planted solutions for C02): goals, facts, rules, recursion, unification.

Predicates Q(real y) {y >= 0}, P(real x) {body}, recursive R(real n), mutually recursive A/B; bodies
from {constraint on the parameter, subgoal with an argument expression, two subgoals, disjunction of
those}; 0-2 facts of Q with constants, 1-2 goals with free or constant arguments (so that goals can unify
with facts, with each other, or must be activated and expanded).  Every program has a solution by
construction.
"""
import itertools
from fractions import Fraction as F
from riddle import render, eval_expr, lit, Solution
import fam_tl

X, N = ("id", "x"), ("id", "n")


def c(op, l, r):
    return ("c", ("bin", op, l, r))


def g(pred, **args):
    return ("g", pred, args)


BODIES = {
    "B1": [c(">=", X, lit(1))],
    "B2": [g("Q", y=("nary", "+", [X, lit(1)]))],
    "B3": [c("<=", X, lit(5)), g("Q", y=("nary", "*", [lit(2), X]))],
    "B4": [("or", [[c("<=", X, lit(0))], [g("Q", y=X)]])],
    "B5": [("or", [[g("Q", y=lit(1))], [g("Q", y=lit(2))]])],
    "B6": [g("Q", y=X), g("Q", y=("nary", "+", [X, lit(1)]))],
    "B7": [c(">=", X, lit(0)), ("or", [[c("<=", X, lit(2)), g("Q", y=lit(3))], [c(">=", X, lit(4))]])],
}
PREDS = {
    "Q": (["y"], [c(">=", ("id", "y"), lit(0))]),
    "R": (["n"], [("or", [[c("<=", N, lit(0))], [c(">=", N, lit(1)), g("R", n=("nary", "-", [N, lit(1)]))]])]),
    "A": (["n"], [("or", [[c("<=", N, lit(0))], [g("B", n=("nary", "-", [N, lit(1)]))]])]),
    "B": (["n"], [g("A", n=N)]),
}


def render_body(body, counter):
    out = []
    for it in body:
        if it[0] == "c":
            out.append(render(it[1]) + ";")
        elif it[0] == "g":
            counter[0] += 1
            out.append("goal s%d = new %s(%s);" % (counter[0], it[1], ", ".join("%s: %s" % (k, render(v)) for k, v in it[2].items())))
        else:
            out.append(" or ".join("{ " + " ".join(render_body(b, counter)) + " }" for b in it[1]))
    return out


def pred_text(name, params, body):
    return "predicate %s(%s) { %s }" % (name, ", ".join("real " + p for p in params), " ".join(render_body(body, [0])))


def generate(thorough):
    progs = []
    k = 0

    def add(text, preds, top, solvable=True):
        nonlocal k
        k += 1
        progs.append(("ru%d" % k, text, {"preds": preds, "top": top, "solvable": solvable}))
    facts_opts = [[], [("Q", {"y": lit(2)})], [("Q", {"y": lit(3)})], [("Q", {"y": lit(2)}), ("Q", {"y": lit(3)})]]
    goal_args = [None, lit(1), lit(2)]
    seconds = [None, ("P", None), ("P", lit(1)), ("Q", lit(2)), ("Q", None)]
    for bname, body in BODIES.items():
        preds = {"Q": PREDS["Q"], "P": (["x"], body)}
        ptext = pred_text("Q", *PREDS["Q"]) + " " + pred_text("P", ["x"], body)
        for facts in facts_opts:
            for ga in goal_args:
                for sec in seconds:
                    if not thorough and len(facts) == 2 and sec is not None:
                        continue
                    top = []
                    text = ptext
                    for i, (p, a) in enumerate(facts):
                        text += " fact f%d = new %s(%s);" % (i, p, ", ".join("%s: %s" % (kk, render(v)) for kk, v in a.items()))
                        top.append(("fact", "f%d" % i, p, a))
                    text += " goal g0 = new P(%s);" % ("" if ga is None else "x: " + render(ga))
                    top.append(("goal", "g0", "P", {} if ga is None else {"x": ga}))
                    if sec is not None:
                        sp, sa = sec
                        par = "x" if sp == "P" else "y"
                        text += " goal g1 = new %s(%s);" % (sp, "" if sa is None else "%s: %s" % (par, render(sa)))
                        top.append(("goal", "g1", sp, {} if sa is None else {par: sa}))
                    # solvable? the only unsatisfiable combination is B1 (x >= 1) ... none: constants 1,2 satisfy every body
                    add(text, preds, top)
    # recursion
    rt = pred_text("R", *PREDS["R"])
    for n in ([None, 0, 1, 2, 3] if not thorough else [None, 0, 1, 2, 3, 4]):
        text = rt + " goal g0 = new R(%s);" % ("" if n is None else "n: %d.0" % n)
        add(text, {"R": PREDS["R"]}, [("goal", "g0", "R", {} if n is None else {"n": lit(n)})])
        if n is not None:
            text2 = rt + " fact f0 = new R(n: %d.0); goal g0 = new R(n: %d.0);" % (max(0, n - 1), n)
            add(text2, {"R": PREDS["R"]}, [("fact", "f0", "R", {"n": lit(max(0, n - 1))}), ("goal", "g0", "R", {"n": lit(n)})])
    add(rt + " goal g0 = new R(); g0.n >= 2.0; g0.n <= 2.0;", {"R": PREDS["R"]}, [("goal", "g0", "R", {})])
    add(rt + " goal g0 = new R(n: 2.0); goal g1 = new R(n: 1.0);", {"R": PREDS["R"]}, [("goal", "g0", "R", {"n": lit(2)}), ("goal", "g1", "R", {"n": lit(1)})])
    # mutual recursion
    mt = pred_text("A", *PREDS["A"]) + " " + pred_text("B", *PREDS["B"])
    mp = {"A": PREDS["A"], "B": PREDS["B"]}
    for n in (None, 0, 1, 2):
        add(mt + " goal g0 = new A(%s);" % ("" if n is None else "n: %d.0" % n), mp, [("goal", "g0", "A", {} if n is None else {"n": lit(n)})])
        add(mt + " goal g0 = new B(%s);" % ("" if n is None else "n: %d.0" % n), mp, [("goal", "g0", "B", {} if n is None else {"n": lit(n)})])
    add(mt + " fact f0 = new A(n: 1.0); goal g0 = new B(n: 1.0);", mp, [("fact", "f0", "A", {"n": lit(1)}), ("goal", "g0", "B", {"n": lit(1)})])
    # loop temptation: two top-level goals of mutually recursive predicates; the base case of V depends on a global
    # variable that a costed top-level disjunction decides, so that closing the recursion through unification with a
    # top-level atom can look cheaper than a well-founded plan
    for kx in (None, 0, 5):
        for costs in (None, (20, 30), (30, 20), (1, 2), (2, 1)):
            for base_cost in (None, 10):
                for first in (0, 1):
                    lt = "real n; predicate U() { goal q = new V(); } predicate V(real x) { { goal p = new U(); } or { x <= 3.0; n == 1.0; }%s }" % ("" if base_cost is None else " [%d.0]" % base_cost)
                    goals = " goal a = new U(); goal c = new V(%s);" % ("" if kx is None else "x: %d.0" % kx)
                    dj = " { n == 0.0; }%s or { n == 1.0; }%s" % (("", "") if costs is None else (" [%d.0]" % costs[0], " [%d.0]" % costs[1]))
                    add(lt + (goals + dj if first == 0 else dj + goals), {}, [("goal", "a", "U", {}), ("goal", "c", "V", {} if kx is None else {"x": lit(kx)})])
    # alternatives: every goal's rule is a disjunction of alternatives, each either a sub-goal V(x: c), whose rule pins a
    # global variable (x == n), or a dead end (a sub-goal whose rule is `false`); EVERY assignment of {0, 1, dead} to the
    # alternatives of two goals (thorough: three).  The ground truth is by enumeration: solvable iff the goals can pick
    # live alternatives that agree on n.  Solutions beyond the first causal graph and dead ends among the waiting flaws
    # both occur.
    opts = (0, 1, None)
    for ng in ((2,) if not thorough else (2, 3)):
        for alts in itertools.product(itertools.product(opts, repeat=2), repeat=ng):
            text = "real n; predicate V(real x) { x == n; } predicate D() { false; }"
            for gi, al in enumerate(alts):
                ds = []
                for ai, c in enumerate(al):
                    ds.append("{ goal s%d%d = new %s; }" % (gi, ai, "D()" if c is None else "V(x: %d.0)" % c))
                text += " predicate G%d() { %s }" % (gi, " or ".join(ds))
            for gi in range(ng):
                text += " goal g%d = new G%d();" % (gi, gi)
            live = [[c for c in al if c is not None] for al in alts]
            solvable = any(all(v in l for l in live) for v in (0, 1))
            add(text, {}, [("goal", "g%d" % gi, "G%d" % gi, {}) for gi in range(ng)], solvable=solvable)
    # predicate inheritance: the rule that creates the sub-goal sits 1, 2 or 3 levels above the predicate of the goal, with
    # empty or non-empty rules in between (super-predicate rules are applied first, transitively)
    for depth in (1, 2, 3):
        for mid in ("", "k >= 0.0;"):
            for kv in (2, 5):
                names = ["T0", "T1", "T2", "T3"][:depth + 1]
                text = "predicate N(real k) { k >= 1.0; } predicate T0(real k) { goal n = new N(k: k); }"
                for i in range(1, depth + 1):
                    text += " predicate T%d(real k) : T%d { %s }" % (i, i - 1, mid)
                text += " goal g = new T%d(k: %d.0);" % (depth, kv)
                add(text, {}, [("goal", "g", names[-1], {"k": lit(kv)})])
                progs[-1][2]["must_have"] = [("N", {"k": F(kv)})]
    # two goals that can unify with each other
    qt = pred_text("Q", *PREDS["Q"])
    for a, b in ((None, None), (lit(1), None), (lit(1), lit(1)), (lit(1), lit(2))):
        text = qt + " goal g0 = new Q(%s); goal g1 = new Q(%s);" % ("" if a is None else "y: " + render(a), "" if b is None else "y: " + render(b))
        add(text, {"Q": PREDS["Q"]}, [("goal", "g0", "Q", {} if a is None else {"y": a}), ("goal", "g1", "Q", {} if b is None else {"y": b})])
    return progs


# ---- validation of rule bodies (C01) ------------------------------------------------------------------------------
def in_plan_atoms(S, pred):
    """atoms of `pred` that are in the plan, each represented by the values of the active atom that stands for it"""
    out = []
    for a in S.atoms.values():
        if a["pred"] != pred:
            continue
        if a["state"] == "Active":
            out.append(a)
        elif a["state"] == "Unified":
            out.append(a)  # its arguments equal those of its (active) target: checked by C03
    return out


def body_holds(body, env, S, preds):
    for it in body:
        if it[0] == "c":
            if eval_expr(it[1], env) is not True:
                return "constraint `%s` is not satisfied" % render(it[1])
        elif it[0] == "g":
            want = {kk: eval_expr(v, env) for kk, v in it[2].items()}
            if not any(all(a["pars"].get(kk) == v for kk, v in want.items()) for a in in_plan_atoms(S, it[1])):
                return "no atom %s(%s) is in the plan" % (it[1], ", ".join("%s=%s" % (kk, fam_tl.vstr(v)) for kk, v in want.items()))
        else:
            fails = [body_holds(b, env, S, preds) for b in it[1]]
            if all(fails):
                return "no disjunct holds (" + "; ".join(fails) + ")"
    return None


def judge(prog, res):
    pid, text, m = prog
    v = res.get("verdict")
    shape = "+".join(sorted(m["preds"])) + ("+facts" if any(t[0] == "fact" for t in m["top"]) else "")
    if v in ("abort", "exception", "bad-json", "missing"):
        return ("C18:valid-program:%s:rules:%s" % (v, shape), "%s: %s" % (v, res.get("what", "")[:600]))
    if v == "timeout":
        return ("C18:valid-program:no-answer-within-limit:rules:%s" % shape, res.get("what", ""))
    if v == "reader-error":
        return ("C16:valid-program-rejected:rules:" + shape, "the reader rejected the program: " + res.get("what", ""))
    if v in ("unsolvable", "inconsistent"):
        if m["solvable"]:
            return ("C02:planted-solution-rejected:rules:%s" % shape, "reported %s although activating every goal and expanding its rule gives a plan" % v)
        return None
    S = Solution(res)
    out = []
    out += fam_tl.check_c03(S, "rules:" + shape)
    # top-level: facts active with their arguments, goals in the plan with their arguments
    for kind, name, pred, args in m["top"]:
        a = S.atom_named(name)
        if a is None:
            out.append(("C03:declared-atom-missing:rules", "atom %s does not appear in the solution" % name))
            continue
        if a["state"] == "Inactive":
            out.append(("C03:top-level-%s-not-in-plan:rules:%s" % (kind, shape), "%s %s is neither active nor unified" % (kind, name)))
        for kk, e in args.items():
            if a["pars"].get(kk) != eval_expr(e, {}):
                out.append(("C01:atom-argument-differs:rules:%s" % kind, "%s.%s is %s, the program says %s" % (name, kk, fam_tl.vstr(a["pars"].get(kk)), render(e))))
    # atoms that the (inherited) rules of the declared goals must have put into the plan
    for pred, args in m.get("must_have", []):
        ok = any(a["pred"] == pred and a["state"] in ("Active", "Unified") and all(a["pars"].get(kk) == (v, F(0)) for kk, v in args.items()) for a in S.atoms.values())
        if not ok:
            out.append(("C03:required-subgoal-missing:rules:inherited-rule", "no atom %s(%s) is in the plan although the rule of a super-predicate of an active goal creates it" % (pred, ", ".join("%s=%s" % kv for kv in args.items()))))
    # every active goal satisfies its rule
    for aid, cz in S.causal.items():
        a = S.atoms.get(aid)
        if a is None or a["state"] != "Active" or cz["is_fact"]:
            continue
        pred = a["pred"]
        if pred not in m["preds"]:
            continue
        params, body = m["preds"][pred]
        why = body_holds(body, dict(a["pars"]), S, m["preds"])
        if why:
            kinds = "+".join(sorted({it[0] for it in body}))
            out.append(("C01:rule-body-not-satisfied:rules:%s" % kinds, "active goal %s of %s(%s): %s" % (S.name(aid), pred, ", ".join("%s=%s" % (kk, fam_tl.vstr(a["pars"].get(kk))) for kk in params), why)))
    return out or None
