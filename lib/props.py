"""Per-property check definitions.  Each function runs the exhaustive enumeration for one property
and tier on $VERIF_REPO's working tree and returns the process exit status."""
import json, os, subprocess, sys, time
import vbuild, common
from common import Outcome, run_harness

VERIF = common.VERIF
TMP = os.path.join(vbuild.BUILD, "tmp")
DEADLINE_S = int(os.environ.get("VERIF_DEADLINE_S", "2400"))


def tmpfile(name):
    os.makedirs(TMP, exist_ok=True)
    return os.path.join(TMP, "%s.%d.json" % (name, os.getpid()))


def prep(cfg, harness, **kw):
    vbuild.ensure_tree(cfg)
    return vbuild.ensure_harness(cfg, harness, **kw)


# ------------------------------------------------------------------------------------------------
def c15(tier):
    out = Outcome("C15", tier, "exploration")
    N, D = (6, 4) if tier == "quick" else (14, 9)
    evals = nontriv = 0
    forms = 0
    samples = []
    exhaustive = True
    per_cfg = {}
    # the arithmetic classes are partly header-only, partly in libsmt: run both pinned build types
    for cfg in (["rel", "dbgn"] if tier == "quick" else ["rel", "dbgn", "dbg"]):
        exe = prep(cfg, "arith_enum")
        args = ["--N", N, "--D", D, "--jobs", vbuild.JOBS]
        r = run_harness(exe, args, tmpfile("c15"))
        out.add_findings(r["findings"], "arith_enum", cfg, exe=exe, args=["--N", N, "--D", D])
        evals += r["counters"].get("evaluations", 0)
        nontriv = max(nontriv, r["counters"].get("nontrivial", 0))
        forms = r["counters"].get("forms", 0)
        samples = r["samples"]
        exhaustive = exhaustive and r["exhaustive"]
        per_cfg[cfg] = {k: r[k] for k in ("rational_values", "rational_ctor_inputs", "inf_rational_values", "lin_values")}
        per_cfg[cfg]["evaluations"] = r["counters"].get("evaluations", 0)
    out.coverage = {
        "evaluations": evals, "distinct_nontrivial": nontriv,
        "rule": "every operator form declared in rational.h / inf_rational.h / lin.h (%d forms) applied to every pair of "
                "operands of the grid n in [-%d,%d], d in [-%d,%d]\\{0} plus +-inf (one representative per value; all ctor "
                "spellings in the ctor form), a sub-grid of (rational, eps) pairs, and 375 linear expressions over x0..x2 "
                "(compound lin forms also with the same object on both sides); "
                "a case is (form, operands); non-trivial = the operation is defined (not inf-inf, 0*inf, x/0, inf/inf); "
                "cases are distinct by construction; distinct_nontrivial counts one build configuration" % (forms, N, N, D, D),
        "samples": samples, "exhaustive": exhaustive, "configurations": per_cfg, "operator_forms": forms,
    }
    out.assumptions = ["operands stay far from int64 overflow (the property excludes overflow)",
                       "reference arithmetic engine/refq.h (__int128 rationals, dual numbers) is correct",
                       "inf_rational operands with an infinite rational part have a zero infinitesimal part"]
    return out.finish()


# ------------------------------------------------------------------------------------------------
def run_netlike(pid, tier, level, harness, cfgs, rule, assumptions, extra_args=(), mc=False, deadline_s=None, per_cfg_args=None):
    """Shared driver for the E2 harnesses: runs harness in each cfg, merges counters, writes evidence."""
    out = Outcome(pid, tier, level)
    tot = {}
    distinct = {}
    samples = []
    exhaustive = True
    per_cfg = {}
    for cfg in cfgs:
        exe = prep(cfg, harness)
        args = ["--tier", tier, "--jobs", vbuild.JOBS] + list(extra_args) + list((per_cfg_args or {}).get(cfg, []))
        if deadline_s:
            args += ["--deadline_s", int(deadline_s / len(cfgs))]
        r = run_harness(exe, args, tmpfile(pid.lower()))
        out.add_findings(r["findings"], harness, cfg, exe=exe, args=list(extra_args))
        for k, v in r["counters"].items():
            tot[k] = tot.get(k, 0) + v
        for k, v in r["distinct"].items():
            distinct[k] = max(distinct.get(k, 0), v)
        if not samples:
            samples = r["samples"]
        exhaustive = exhaustive and r["exhaustive"]
        per_cfg[cfg] = {"counters": r["counters"], "distinct": r["distinct"], "exhaustive": r["exhaustive"],
                        "wall_ms": r.get("wall_ms"), "depth": r.get("depth")}
    out.assumptions = assumptions
    return out, tot, distinct, samples, exhaustive, per_cfg


def c13(tier):
    cfgs = ["rel", "dbgn"] if tier == "quick" else ["rel", "dbgn"]
    out, tot, distinct, samples, exhaustive, per_cfg = run_netlike(
        "C13", tier, "exploration", "reify", cfgs, None,
        ["truth-table evaluation (engine/tt.h) over <= 20 variables is correct",
         "the clause database read through -fno-access-control (constrs + level-0 assignments) is the whole propositional state",
         "for a repeated argument literal either reading of the cardinality constraint (positions / distinct literals) is accepted"],
        deadline_s=None if tier == "quick" else DEADLINE_S)
    out.coverage = {
        "evaluations": tot.get("histories", 0),
        "distinct_nontrivial": distinct.get("outcomes", 0),
        "rule": "a case is a root-level history: unit clauses pre-assigning the argument variables (free/true/false, with and "
                "without propagate()), then one or two calls of new_eq/new_conj/new_disj/new_at_most_one/new_exct_one over ALL "
                "argument lists of length <= L on the 2n literals (duplicates, complements, decided literals), the second call "
                "on every short list and every permutation/sub-list/extension/sign-flip of the first, optionally a unit clause "
                "in between; plus all orderings and signs of 4..6 distinct variables and, for 5..8 (thorough: 9) distinct variables in ascending and descending order, every sign pattern (product encoding with incomplete grids). After every step every "
                "construct built so far is judged by truth table: eq/conj/disj literal <=> formula in every model; amo/exo "
                "literal true => cardinality constraint, and every assignment of the user variables satisfying it extends to a "
                "model with the literal true; every call is conservative. distinct_nontrivial = distinct (returned literals, "
                "database size) fingerprints, a conservative proxy for distinct behaviours",
        "samples": samples, "exhaustive": exhaustive, "truth_tables": tot.get("truth_tables", 0), "configurations": per_cfg,
    }
    return out.finish()


NETMC_RULES = {
    "C07": "networks: every subset of <=2 (thorough: <=3) clauses from the 20 non-tautological 2/3-literal clauses over 3 variables; "
           "1 boolean + 4 LRA atoms over 2 reals, 1 boolean + 4 IDL (and RDL) atoms on a 3-cycle with a repeated pair, each with every "
           "<=1 (thorough: <=2) binary clause over the 5 literals. Histories: ALL sequences up to the depth over assume(l) for every "
           "undefined literal, pop, next, propagate, check({l1,l2}), root new_clause+propagate from a 3-clause pool, simplify_db. "
           "Oracle after every history: reference model set M = truth table(clauses) x theory feasibility (Fourier-Motzkin / "
           "Floyd-Warshall) x no-goods of next(): every reported value is entailed by M and the standing decisions; every clause in "
           "the database and every level-0 assignment is entailed by M; a call answers false only if M (with decisions / check "
           "assumptions) is empty; a refused decision means M+decisions+p is empty; a complete assignment is in M; every theory "
           "conflict/lemma is theory-valid.",
    "C08": "networks built so that one quantity changes several times across levels (LRA: x<=5,x<=3,x<=1,x>=0,x+y<=4,y>=2; IDL and RDL: "
           "three constraints on one ordered pair + a 3-cycle; OV: three variables with overlapping domains and two equalities; one "
           "mixed LRA+IDL+boolean network with linking clauses). Histories: ALL sequences of assume/pop/next up to the depth. Oracle "
           "(differential, no expected values): after every history the literals currently true are asserted in trail order on a FRESH "
           "copy of the network and all arithmetic bounds, distances and object domains must coincide; plus the C07 entailment oracle "
           "(so that at root level only root consequences remain).",
    "C09": "networks: ALL 3-subsets of the atom pool {x,y,x+y,x-y (thorough: 2x-y,x+2y)} x {<=,<,>=,>} x {0,1 (thorough: -1,1/2)}; "
           "plus (explored first) ALL 3-subsets of {x,y,x+y,x-y} x {<=,>=} x {1/2,3/2}, fan-out networks (1 boolean + 4 atoms, two binary "
           "clauses with one trigger literal) and ALL 4-subsets ('boxes') of {x,y,x-y} x {<=,>=} x {0,1} at the same depth; "
           "histories: ALL sequences of assume(+-atom), pop, next up to the depth. Oracle: Fourier-Motzkin on the asserted atoms "
           "(negation = complementary strict/non-strict relation): a standing set is feasible; reported values satisfy every asserted "
           "constraint in (rational,eps) arithmetic; every tableau row holds on the values; lb<=value<=ub; bounds contain the exact "
           "projection of the solution set; every theory conflict and lemma is valid; refused decisions are infeasible (C07 oracle).",
    "C10": "for IDL and RDL (matrix starts at size 2, so growth is exercised): ALL 3-subsets of {to-from<=d} over 4 points (origin "
           "included) with d in {-1,0,1} (thorough: -2..2 and half-integers for RDL) that touch <=3 points, plus 'relaxation' networks (two bounds on a direct "
           "edge, a two-hop path whose length lies between them, a reverse edge and an atom it decides, with EVERY single binary "
           "clause over the six atoms, explored with decisions on positive literals + pop to depth 5 (thorough 6), so that several "
           "constraints enter and leave one decision level together), 4-point chains with a shortcut atom for every ordering of the points, "
           "fan-out networks, and for RDL ALL 3-subsets with a strict bound (d or d-eps); the special families are explored before "
           "the big pool, so that a deadline cuts inside the pool; histories: ALL sequences "
           "of assume(+-atom), pop, next up to the depth. Oracle: Floyd-Warshall closure of the asserted literals (false literal = "
           "reverse edge -d-1 resp. -d-eps): no standing negative cycle; every matrix entry equals the closure exactly; every "
           "undecided atom decided by the closure has been propagated; every conflict/lemma negates to a negative cycle; nothing "
           "else is inferred (C07 oracle).",
    "C14": "value universe of 3 (thorough: 4) values; two variables with EVERY pair of non-empty domains, equality requested once or "
           "twice (both argument orders); chains of 3-5 variables with equalities requested while later variables do not exist yet; lazy "
           "variables (no exactly-one clause); variables derived from another one's value literals (new_var(lits, vals)), also created "
           "in the middle of a history by the step late(v) (below a decision, after a pop, at root); histories: ALL sequences of assume/pop/next/propagate over value and equality literals up to "
           "the depth. Oracle: truth table of the database after construction (exactly one value per variable in every model, every "
           "allowed value possible, equality literal <=> same value); along histories value(v) = values whose literal is not false, "
           "and the C07 entailment oracle.",
}


def netmc_check(pid, tier):
    cfgs = ["rel", "dbgn"]
    out, tot, distinct, samples, exhaustive, per_cfg = run_netlike(
        pid, tier, "model_checking", "netmc", cfgs, None,
        ["reference models (engine/tt.h truth tables, engine/fm.h Fourier-Motzkin and Floyd-Warshall, engine/refq.h) are correct",
         "iteration order of pointer-keyed containers is fixed per history by the deterministic allocator (engine/arena.h)",
         "small scope: nothing is claimed beyond the stated networks and depth"],
        extra_args=["--prop", pid], deadline_s=None if tier == "quick" else DEADLINE_S,
        # quick: the assertion-enabled build explores one level less (it is 2-3x slower); thorough: same depth
        per_cfg_args={"dbgn": ["--depth_delta", "-1"]} if tier == "quick" else None)
    out.coverage = {
        "states": distinct.get("states", 0),
        "transitions": tot.get("histories", 0),
        "traces_validated_against_impl": tot.get("histories", 0),
        "samples": samples,
        "explanation": "stateless exploration of the real sat_core/theories: a state is the history that reaches it, replayed on a "
                       "fresh network; states = distinct canonical end states (assignment, level, bounds/distances/domains, clause "
                       "set); transitions = histories executed (each is one new last step); there is no separate model, so every "
                       "trace runs on the implementation. " + NETMC_RULES[pid],
        "networks": tot.get("networks", 0), "steps_executed": tot.get("steps", 0), "exhaustive": exhaustive,
        "depth": per_cfg[cfgs[0]].get("depth"), "configurations": per_cfg,
    }
    for k in ("undo_compared", "undo_reference_propagated_more", "undo_reference_rejected"):
        if k in tot:
            out.coverage[k] = tot[k]
    return out.finish()


def relmc_check(pid, tier):
    cfgs = ["rel", "dbgn"]
    out, tot, distinct, samples, exhaustive, per_cfg = run_netlike(
        pid, tier, "exploration", "relmc", cfgs, None,
        ["exact rational evaluation of the relation at each grid point (engine/refq.h)",
         "completeness of the theories on fully assigned atom sets is only used through a CDCL-style search over the public API",
         "a request that is rejected with std::invalid_argument is acceptable (C12)"],
        extra_args=["--prop", pid], deadline_s=None if tier == "quick" else DEADLINE_S)
    rule = {
        "C11": "a case = prelude of root constraints (8 preludes: none, lower bound, fixed variable, sum bound, y>=x, constraints whose "
               "assertion forces one or two pivots so that x is basic, strict root bounds) ; one or two relation requests l REL r with l,r "
               "from an expression pool built through lin's operators (constants, x, y, x+y, x-y, x-x, x+x, 2*x, x/2, x+1, x+y-y, -x, "
               "2*x-y, ...) and REL in {<,<=,=,>=,>}; the second request ranges over the same/swapped/complement/other relations on the "
               "same sides and an independent pool (thorough: with further root constraints asserted in between). For EVERY point of the "
               "5x5 grid {-1,0,1/2,1,2}^2 satisfying the stated constraints the case is replayed on a fresh network, x,y are pinned at "
               "root and each returned literal must be satisfiable exactly when its relation holds at the point and refutable exactly "
               "when it does not (complete search through assume/propagate); pinning must succeed (no solution lost) and root bounds "
               "must not change by requesting. distinct_nontrivial = distinct (prelude, literal-shape) outcomes",
        "C12": "for idl_theory and rdl_theory, both creation orders of the two points, network states {empty, x-y<=1, x in [0,3], all + y in "
               "[1,2]}: every request l REL r with l,r in {k, c*x+k, c*y+k, c*(x-y)+k}, c in {1,-1,2,-2,1/2 (thorough 3,-1/2)}, k in "
               "{0,1,-2 (thorough 1/2)}: for EVERY grid point (7x7 integers resp. 8x8 with half-integers) in the state both points are "
               "pinned by unit distance constraints and the literal must be satisfiable exactly when the relation holds, and in the other "
               "order - the literal asserted first with the truth value the point demands, the point pinned afterwards - the pinning "
               "must succeed; and for every "
               "pair (l,r) in every state bounds(l), distance(l,r), equates(l,r) are compared with the intervals derived from the "
               "variable-level bounds()/distance() of the same state. distinct_nontrivial = distinct (theory,relation,shape,state,"
               "outcome) classes for literal cases + distinct query cases",
    }[pid]
    out.coverage = {
        "evaluations": tot.get("replays", 0), "distinct_nontrivial": distinct.get("outcomes", 0), "rule": rule,
        "samples": samples, "exhaustive": exhaustive, "cases": tot.get("cases", 0),
        "rejected_forms": tot.get("rejected_forms", 0), "configurations": per_cfg,
    }
    return out.finish()


def run_parts(out, parts, tier):
    """parts: list of (label, cfg, harness, args).  Runs each, merges findings; returns per-part results."""
    res = {}
    for label, cfg, harness, args in parts:
        exe = prep(cfg, harness)
        a = list(args) + ["--tier", tier, "--jobs", vbuild.JOBS]
        if tier != "quick":
            a += ["--deadline_s", max(60, int(DEADLINE_S / max(1, len(parts))))]
        r = run_harness(exe, a, tmpfile(out.pid.lower() + "_" + label.replace("/", "_")))
        out.add_findings(r["findings"], harness, cfg, exe=exe, args=list(args) + ["--tier", tier])
        res[label] = r
    return res


FAMILIES = {}


def family(name):
    import importlib
    if name not in FAMILIES:
        FAMILIES[name] = importlib.import_module(name)
    return FAMILIES[name]


def run_family(out, fam_name, cfgs, tier, limit_ms=20000, after_read=False, only_keys_prefix=None):
    """Generates the programs of a family, runs them through the real solver in every cfg, judges every result.
    Returns coverage statistics.  Findings are confirmed by re-running the single program twice."""
    import riddle
    fam = family(fam_name)
    progs = fam.generate(tier == "thorough")
    stats = {"programs": len(progs), "runs": 0, "verdicts": {}, "per_cfg": {}}
    byid = {p[0]: p for p in progs}
    for cfg in cfgs:
        t0 = time.time()
        res = riddle.run_programs(cfg, [(p[0], p[1]) for p in progs], after_read=after_read, limit_ms=limit_ms, tag=fam_name)
        verd = {}
        found = {}
        for p in progs:
            r = res.get(p[0], {"verdict": "missing", "what": "no result line"})
            verd[r["verdict"]] = verd.get(r["verdict"], 0) + 1
            j = fam.judge(p, r)
            if j:
                for key, msg in (j if isinstance(j, list) else [j]):
                    if only_keys_prefix and not key.startswith(only_keys_prefix):
                        continue
                    f = found.setdefault(key, {"key": key, "case": p[1], "msg": msg, "count": 0, "pid": p[0]})
                    f["count"] += 1
                    if len(p[1]) < len(f["case"]):
                        f.update(case=p[1], msg=msg, pid=p[0])
        if hasattr(fam, "judge_all"):
            for key, case, msg in fam.judge_all(progs, res):
                if only_keys_prefix and not key.startswith(only_keys_prefix):
                    continue
                f = found.setdefault(key, {"key": key, "case": case, "msg": msg, "count": 0, "pid": None})
                f["count"] += 1
                if len(case) < len(f["case"]):
                    f.update(case=case, msg=msg)
        # replay before report
        for key, f in found.items():
            if f["pid"] is None:  # class-level finding: re-run the whole family once more and require the same key
                res2 = riddle.run_programs(cfg, [(p[0], p[1]) for p in progs], after_read=after_read, limit_ms=limit_ms, tag=fam_name + "r")
                if key not in [k for k, _, _ in fam.judge_all(progs, res2)]:
                    out.harness_errors.append("class-level finding %s did not reproduce on a second run" % key)
                    continue
                out.findings.append({"key": key, "case": f["case"], "msg": f["msg"], "count": f["count"], "engine": "progrun:" + fam_name, "cfg": cfg})
                continue
            ok = 0
            for _ in range(2):
                r2 = riddle.run_programs(cfg, [(f["pid"], f["case"])], after_read=after_read, limit_ms=limit_ms * 3, tag=fam_name + "r")
                j2 = fam.judge(byid[f["pid"]], r2.get(f["pid"], {"verdict": "missing", "what": ""}))
                keys2 = [k for k, _ in (j2 if isinstance(j2, list) else ([j2] if j2 else []))]
                ok += key in keys2
            if ok < 2:
                out.harness_errors.append("finding %s did not reproduce when its program was re-run alone (%d/2): %s" % (key, ok, f["case"][:200]))
                continue
            out.findings.append({"key": key, "case": f["case"], "msg": f["msg"], "count": f["count"], "engine": "progrun:" + fam_name, "cfg": cfg})
        stats["runs"] += len(progs)
        for k, v in verd.items():
            stats["verdicts"][k] = stats["verdicts"].get(k, 0) + v
        stats["per_cfg"][cfg] = {"verdicts": verd, "wall_s": round(time.time() - t0, 1)}
    stats["samples"] = [progs[i][1] for i in range(0, len(progs), max(1, len(progs) // 5))][:5]
    return stats


SOLVER_CFGS_QUICK = ["rel", "dbg-hadd-ci"]
SOLVER_CFGS_ALL = ["rel", "rel-hadd", "rel-ci", "rel-hadd-ci", "dbg", "dbg-hadd", "dbg-ci", "dbg-hadd-ci"]


def fam_coverage(stats_list, rule, extra=None):
    progs = sum(s["programs"] for s in stats_list)
    runs = sum(s["runs"] for s in stats_list)
    samples = []
    for s in stats_list:
        samples += s["samples"][:3]
    cov = {"evaluations": runs, "distinct_nontrivial": progs, "rule": rule, "samples": samples, "exhaustive": True,
           "families": {s["name"]: {k: s[k] for k in ("programs", "runs", "verdicts", "per_cfg")} for s in stats_list}}
    if extra:
        cov.update(extra)
    return cov


def named(st, name):
    st["name"] = name
    return st


def c01(tier):
    out = Outcome("C01", tier, "exploration")
    cfgs = SOLVER_CFGS_QUICK if tier == "quick" else SOLVER_CFGS_ALL
    sts = [named(run_family(out, "fam_cn", cfgs, tier, limit_ms=10000, only_keys_prefix="C01"), "constraint-networks"),
           named(run_family(out, "fam_rules", cfgs, tier, limit_ms=10000, only_keys_prefix="C01"), "rules")]
    out.coverage = fam_coverage(sts,
        "F1 constraint networks (lib/fam_cn.py): `real x; real y; bool p;` + EVERY subset of <=3 statements of a pool of 33 (thorough 39): "
        "relations between linear expressions (strict, non-strict, ==, !=), boolean combinations (| -> ^ ! == & under and outside "
        "negation) and `{..} or {..}` disjunction statements with/without costs. Every program is solved by the real solver in 2 "
        "(thorough: all 8) configurations of {h_max,h_add} x {CHECK_INCONSISTENCIES off,on} x {Release, Debug+ASan}; when it reports a "
        "solution, every statement is re-evaluated on the reported values with exact (rational, eps) arithmetic and three-valued "
        "logic (unknown = not satisfied); for a disjunction statement some disjunct must hold entirely. distinct_nontrivial = number "
        "of distinct programs (all distinct by construction). F2 rules (lib/fam_rules.py): for every active goal atom the constraints, "
        "subgoals (an atom of the right predicate with the right argument values must be in the plan) and disjunctions (some disjunct "
        "must hold entirely) of its predicate's rule are re-evaluated on the atom's reported arguments; arguments written in facts and "
        "goals must be reported as written. Timelines and objects are judged by C04-C06/C17.")
    out.assumptions = ["the exact evaluator of lib/riddle.py implements the reference semantics of DESIGN.md appendix A",
                       "timeouts (10 s) are undecided, not verdicts"]
    return out.finish()


def c02(tier):
    out = Outcome("C02", tier, "exploration")
    cfgs = SOLVER_CFGS_QUICK if tier == "quick" else SOLVER_CFGS_ALL
    sts = [named(run_family(out, "fam_cn", cfgs, tier, limit_ms=10000, only_keys_prefix="C02"), "ground-truth"),
           named(run_family(out, "fam_eqv", cfgs[:2] if tier == "quick" else cfgs, tier, limit_ms=10000, only_keys_prefix="C02"), "equivalence-classes"),
           named(run_family(out, "fam_tl", cfgs[:2] if tier == "quick" else cfgs, tier, limit_ms=10000, only_keys_prefix="C02"), "planted-timelines"),
           named(run_family(out, "fam_rules", cfgs[:2] if tier == "quick" else cfgs, tier, limit_ms=10000, only_keys_prefix="C02"), "planted-rules")]
    out.coverage = fam_coverage(sts,
        "(a) ground truth: every constraint-network program of lib/fam_cn.py (all subsets of <=3 statements of the pool): when the "
        "solver answers 'unsolvable' (solve() false) or 'inconsistent' (error while reading) an independent complete procedure - "
        "enumeration of the truth assignments of the atomic relations and booleans that satisfy the boolean structure, each checked "
        "by Fourier-Motzkin with strictness and disequality splitting - must find no model. (c) equivalence classes (lib/fam_eqv.py): "
        "for base programs of 2-3 statements, ALL permutations, an alpha-renaming of every identifier and each of three tautologies "
        "inserted at each position; verdicts within a class must agree. All in 2 (thorough 8) build configurations. The network-level "
        "half (learnt no-goods are implied) is decided by C07/C09/C10. (b) planted solutions: every state-variable / reusable-resource "
        "program of lib/fam_tl.py for which a reference search (all instance assignments x all orderings x Fourier-Motzkin on the "
        "difference constraints) finds a sequential placement of all atoms must not be reported unsolvable.")
    out.assumptions = ["the reference decision procedure (lib/fam_cn.py: has_model) is complete for the two-variable linear fragment generated",
                       "timeouts are undecided"]
    return out.finish()


TL_RULE = ("timeline families (lib/fam_tl.py): sv = `class S : StateVariable {P (duration>=1), Z}` with 1-2 instances and EVERY pair (and a fixed "
           "slice of triples; thorough: more) of atom templates {fact,goal} x {P,Z} x {fixed instance, own instance variable} x {free, start 0/5, "
           "[0,5], [5,10], zero-length at 5, chained to the previous atom's end}, with/without horizon bound; rr = ReusableResource capacity "
           "1..3 with pairs/triples of Use facts {amount 1..3} x {duration 0,2,5} x {start free,0,2} x {fixed resource, own resource variable}; "
           "basic = one fact or goal on plain Interval/Impulse predicates and on predicates of StateVariable, ReusableResource, "
           "ConsumableResource and Agent types with one optional bound. Each program is solved in 2 (thorough 8) configurations. ")


def tl_check(pid, tier, what, prefix, extra_fams=()):
    out = Outcome(pid, tier, "exploration")
    cfgs = SOLVER_CFGS_QUICK if tier == "quick" else SOLVER_CFGS_ALL
    sts = [named(run_family(out, "fam_tl", cfgs, tier, limit_ms=10000, only_keys_prefix=prefix), "timelines")]
    for fam in extra_fams:
        sts.append(named(run_family(out, fam, cfgs, tier, limit_ms=10000, only_keys_prefix=prefix), fam))
    out.coverage = fam_coverage(sts, TL_RULE + what + " distinct_nontrivial = number of distinct programs.")
    out.assumptions = ["exact (rational, eps) comparison of the reported times; [start,end) semantics: zero-length atoms overlap nothing",
                       "timeouts (10 s) are undecided for this property (they are violations of C18)"]
    return out.finish()


def c04(tier):
    return tl_check("C04", tier, "C04 oracle: every active atom of a state-variable predicate has a decided instance; no two active atoms that can be on "
                    "the same instance have intersecting [start,end); no segment of the extracted state-variable timeline lists more than one atom.", "C04")


def c05(tier):
    return tl_check("C05", tier, "C05 oracle: at every start/end pulse the amounts of the active Use atoms covering it sum to at most the capacity of their "
                    "(decided) resource; the usage of every segment of the extracted resource timeline equals that sum.", "C05")


def c06(tier):
    return tl_check("C06", tier, "C06 oracle: every active atom with start/end/duration has origin <= start <= end <= horizon and duration = end - start >= 0; "
                    "every active atom with 'at' has origin <= at <= horizon - for facts and goals, plain and smart-type predicates.", "C06")


def c03(tier):
    out = Outcome("C03", tier, "exploration")
    cfgs = SOLVER_CFGS_QUICK if tier == "quick" else SOLVER_CFGS_ALL
    sts = [named(run_family(out, "fam_rules", cfgs, tier, limit_ms=10000, only_keys_prefix="C03"), "rules"),
           named(run_family(out, "fam_tl", cfgs, tier, limit_ms=10000, only_keys_prefix="C03"), "timelines")]
    out.coverage = fam_coverage(sts,
        "rules (lib/fam_rules.py): predicates Q(y){y>=0}, P(x){body} with 7 body shapes (parameter constraint, subgoal with an argument "
        "expression, two subgoals, disjunctions of those), recursive R(n), mutually recursive A/B; EVERY combination of 0-2 facts of Q "
        "with constants, a goal of P with free/constant argument and an optional second goal (so goals unify with facts, with each "
        "other, or are activated and expanded); recursion depth 0..3(4); plus the timeline families of C04-C06 (facts and goals on "
        "state variables/resources, which unify when their arguments coincide). Oracle on the causal structure of every solution "
        "(read from the live solver: per atom phi, sigma, resolvers with rho and unification target, preconditions, causes): an atom in "
        "the plan is Active or Unified; Unified => an active unification resolver whose target is Active, of the same predicate, with "
        "equal values of EVERY argument; an active goal's rule flaws are in the plan; the relation 'gave rise to' + 'is unification "
        "target of' is acyclic; declared facts/goals are in the plan with the written arguments. distinct_nontrivial = distinct programs.")
    out.assumptions = ["causal structure read with -fno-access-control from solver::reason / flaw::resolvers / resolver::preconditions",
                       "rule constraints themselves are judged under C01 (key prefix C01) by the same family"]
    return out.finish()


def c17(tier):
    out = Outcome("C17", tier, "exploration")
    cfgs = SOLVER_CFGS_QUICK if tier == "quick" else SOLVER_CFGS_ALL
    sts = [named(run_family(out, "fam_oo", cfgs, tier, limit_ms=10000, after_read=True, only_keys_prefix="C17"), "objects")]
    out.coverage = fam_coverage(sts,
        "lib/fam_oo.py: class hierarchies {single, chain of 2, chain of 3, two supertypes, diamond, nested type} x EVERY instance count "
        "vector (0-2 per class, bounded total) x a declared variable of EVERY type x {no constraint, v != first, v == last} x {all "
        "instances before the declaration, one more created after it}; two variables over 1-3 instances with every small set of "
        "==/!= constraints; numeric fields set by constructor argument, init-list constant, field initialiser and constructor body, "
        "with constraints through v.n; an object-typed field accessed through a variable; enum declarations with included enums and "
        "pairwise (dis)equalities. Oracle: the domain reported right after read() equals exactly the instances of the type and its "
        "subtypes that existed at the declaration; a type without instances is rejected; after solve() every variable has one value, "
        "inside the domain, and every constraint holds for the chosen instances (field access = field of the chosen instance); fields "
        "have the values the program wrote; satisfiable problems are not rejected. distinct_nontrivial = distinct programs.")
    out.assumptions = ["instance identity through the ids of the official JSON (pointer values, stable within a run)"]
    return out.finish()


def c20(tier):
    out = Outcome("C20", tier, "model_checking")
    t0 = time.time()
    vbuild.ensure_tree("dbgn")
    seq = vbuild.ensure_harness("dbgn", "seqref")
    expect = os.path.join(TMP, "c20.seq.%d.txt" % os.getpid())
    os.makedirs(TMP, exist_ok=True)
    with open(expect, "w") as f:
        subprocess.check_call([seq], stdout=f)
    vbuild.ensure_tree("par")
    exe = vbuild.ensure_harness("par", "schedmc", extra_flags=["-rdynamic", "-ldl"])
    args = ["--expect", expect, "--tier", tier, "--jobs", vbuild.JOBS]
    if tier != "quick":
        args += ["--deadline_s", DEADLINE_S]
    r = run_harness(exe, args, tmpfile("c20"))
    out.add_findings(r["findings"], "schedmc", "par", exe=exe, args=["--expect", expect])
    # race detection: free-running ThreadSanitizer pass over the same scenario bodies
    vbuild.ensure_tree("par-tsan")
    rf = vbuild.ensure_harness("par-tsan", "racefree")
    reps = 40 if tier == "quick" else 400
    env = dict(os.environ)
    env["TSAN_OPTIONS"] = "halt_on_error=0:exitcode=66:report_signal_unsafe=0"
    p = subprocess.run([rf, "--expect", expect, "--reps", str(reps)], stdout=subprocess.PIPE, stderr=subprocess.PIPE, env=env)
    so, se = p.stdout.decode(errors="replace"), p.stderr.decode(errors="replace")
    tsan_reports = se.count("WARNING: ThreadSanitizer")
    if tsan_reports or p.returncode == 66:
        # key by the innermost /repo frame of the first report
        import re
        m = re.search(r"#\d+ (\S+) (/\S*?/(smt/\S+?):(\d+))", se)
        site = (m.group(3) + ":" + m.group(1)) if m else "unknown-site"
        out.findings.append({"key": "C20:data-race:" + site, "case": "racefree --reps %d (free-running, ThreadSanitizer)" % reps, "msg": se[:3000], "count": tsan_reports, "engine": "racefree", "cfg": "par-tsan"})
    elif p.returncode != 0:
        first = [l for l in so.splitlines() if l.startswith("MISMATCH")]
        out.findings.append({"key": "C20:free-run-differs-from-sequential", "case": first[0] if first else "racefree exit %d" % p.returncode, "msg": (so + se)[:3000], "count": 1, "engine": "racefree", "cfg": "par-tsan"})
    free_runs = 0
    for l in so.splitlines():
        if l.startswith("runs="):
            free_runs = int(l.split()[0][5:])
    out.coverage = {
        "states": max(1, r["distinct"].get("outcomes", 0)),
        "transitions": r["counters"].get("scheduling_points", 0),
        "traces_validated_against_impl": r["counters"].get("schedules", 0),
        "samples": r["samples"][:5],
        "exhaustive": r["exhaustive"],
        "levels_completed": r.get("levels"),
        "tsan_free_runs": free_runs, "tsan_reports": tsan_reports,
        "explanation": "stateless preemption-bounded exploration (CHESS style) of the real smt::thread_pool + lra_theory::pivot built with "
                       "PARALLELIZE: pthread_mutex_lock/unlock, pthread_cond_wait/signal/broadcast, pthread_create/join issued by libstdc++ are "
                       "interposed at link time and routed to a cooperative scheduler (one runnable thread, blocked threads are blocked, no "
                       "enabled thread = deadlock); every intercepted operation is a scheduling point; switches forced by blocking are free, "
                       "switching away from a runnable thread costs one preemption; ALL schedules within the bound are executed for each "
                       "(scenario, pool size, bound) listed in levels_completed (7 scenarios: three direct pivots with 1-3 other rows sharing "
                       "the entering variable, incl. a coefficient cancelling to zero; root assertions forcing 1-2 pivots; decisions with a "
                       "conflict and backjump; an infeasible system). Oracle per schedule: no deadlock, pool quiescent (no queued task, "
                       "active == 0) whenever a call returns, and tableau, watch sets, values, bounds, verdicts, assignments and the set of "
                       "learnt clauses equal those of the SEQUENTIAL build (harness/seqref) for the same call sequence. states = distinct "
                       "canonical end states observed (one per scenario when the property holds), transitions = scheduling points executed, "
                       "traces = schedules executed on the implementation. Data races: the same scenario bodies run free under "
                       "ThreadSanitizer (pool sizes 2-4, %d repetitions each)." % reps,
    }
    out.assumptions = ["sequential consistency (the code uses only mutexes and one condition variable)",
                       "pthread_cond_signal wakes the lowest-numbered waiter; spurious wake-ups are not modelled (thread_pool waits with a predicate)",
                       "ThreadSanitizer (a dynamic detector over sampled free runs) is the race oracle; the exhaustive part decides equivalence, quiescence and deadlock-freedom",
                       "object addresses are fixed per execution by the arena allocator, so the enqueue order of row updates is a function of the schedule"]
    rc = out.finish()  # (replays of findings need the reference file)
    try:
        os.remove(expect)
    except OSError:
        pass
    return rc


def c19(tier):
    out = Outcome("C19", tier, "model_checking")
    cfgs = ["exec"] if tier == "quick" else ["exec", "exec-rel"]
    tot, distinct, levels, samples, exhaustive = {}, {}, {}, [], True
    for cfg in cfgs:
        exe = prep(cfg, "execmc")
        args = ["--tier", tier, "--jobs", vbuild.JOBS]
        if tier != "quick":
            args += ["--deadline_s", int(DEADLINE_S / len(cfgs))]
        r = run_harness(exe, args, tmpfile("c19"))
        out.add_findings(r["findings"], "execmc", cfg, exe=exe)
        for k, v in r["counters"].items():
            tot[k] = tot.get(k, 0) + v
        for k, v in r["distinct"].items():
            distinct[k] = max(distinct.get(k, 0), v)
        levels[cfg] = r.get("levels")
        samples = samples or r["samples"]
        exhaustive = exhaustive and r["exhaustive"]
    out.coverage = {
        "states": max(1, distinct.get("states", 0)), "transitions": tot.get("callbacks", 0),
        "traces_validated_against_impl": tot.get("executions", 0), "samples": samples[:5], "exhaustive": exhaustive,
        "levels_completed": levels, "distinct_outcomes": distinct.get("outcomes", 0),
        "explanation": "deviation-bounded exhaustive exploration of the environment of the real executor (BUILD_EXECUTOR build): thirteen solved plans "
                       "(two state-variable atoms meeting at a time point; an impulse coinciding with an interval start; a rule creating a "
                       "predecessor; a disjunction; fractional times 21/4..25/4; an atom with constant times; two uses competing for a reusable resource; three atoms chained on a state variable; two atoms on different state variables tied by equalities; an agent with an impulse followed by an interval; two plans with strict inequalities, whose planned times carry an infinitesimal part; a goal with three alternatives of which one depends on the end of another atom, explored with one deviation less) x units_per_tick in {1, 1/2, 2}. A "
                       "recording executor_listener is the environment: at every starting()/ending() callback the explorer picks from "
                       "{no request, dont_start_yet / dont_end_yet for one notified atom with delay 1 or 2}; before every tick() from {nothing, "
                       "failure({a}) for one running atom}. Default = no request; ALL executions with at most 3 (thorough 4, then 5 while the deadline allows) non-default answers "
                       "are run to a fixed horizon, each on a fresh solver+executor under the deterministic allocator. Monitors: time advances by "
                       "exactly units_per_tick per tick(); every atom is started at most once and ended at most once, start before end; an atom "
                       "is never started/ended before its planned time, nor started (ended) in the tick() call that was asked to delay it unless the client was notified again after the delay; after every "
                       "tick and failure the adapted plan is well-formed (origin <= start <= end <= horizon, duration = end - start, no overlap on "
                       "a state variable, capacity of a reusable resource respected) and the start (end) of every started (ended) atom is unchanged; at the horizon every active atom "
                       "whose time has come has been started and ended exactly once; execution_exception is a legitimate terminal outcome, "
                       "any other abnormal termination is a violation. states = distinct (outcome, time, started/ended sets with values); "
                       "transitions = listener callbacks delivered; traces = executions.",
    }
    out.assumptions = ["the solver's own plan validity under adaptation is judged by the C04/C06-style monitors implemented in the harness",
                       "delays of 1 or 2 plan units; at most one request per callback"]
    return out.finish()


def c16(tier):
    out = Outcome("C16", tier, "exploration")
    parts = [("tokens/rel", "rel", "lexmc", ["--mode", "tokens"]), ("parse/rel", "rel", "lexmc", ["--mode", "parse"]),
             ("tokens/dbgn", "dbgn", "lexmc", ["--mode", "tokens"]), ("parse/dbgn", "dbgn", "lexmc", ["--mode", "parse"])]
    res = run_parts(out, parts, tier)
    st = run_family(out, "fam_eval", SOLVER_CFGS_QUICK if tier == "quick" else SOLVER_CFGS_ALL, tier, only_keys_prefix="C16")
    ev = sum(r["counters"].get("cases", 0) for r in res.values()) + st["runs"]
    dn = res["tokens/rel"]["distinct"].get("token_streams", 0) + res["parse/rel"]["distinct"].get("asts", 0) + st["programs"]
    out.coverage = {
        "evaluations": ev, "distinct_nontrivial": dn, "eval_family": st,
        "rule": "(a) tokens: the real lexer against a reference lexer written from the token table: every keyword with its prefixes, "
                "extensions, capitalisation and following punctuation; number, string and comment forms (incl. '**/', nested openers, "
                "CR/LF); and EVERY sequence of <=3 (thorough 4) tokens of a 54-spelling token alphabet joined by ' ' and by nothing "
                "(thorough: also newline, '/*c*/', ' //c\\n'); oracle = identical symbol sequence and payloads. (b) parse: EVERY "
                "expression tree of depth <=2 over leaves {a, 2, 0.5, o.g, true}, unary + - !, the 14 binary/n-ary operators (n<=3), casts, "
                "calls and constructor calls, rendered with minimal parentheses (precedence == != < relational/logical < + - < * / < "
                "unary, left-to-right) and fully parenthesised, in 14 placements (local initialiser, top-level and block statement, "
                "disjunct, fact/goal argument, field initialiser, constructor init-list and body, predicate body, void-method body, "
                "return, assignment, disjunct cost); oracle = the AST the real parser builds (observed through its virtual node "
                "factories) equals the tree. (c) evaluation (lib/fam_eval.py): every linear arithmetic tree of depth <=2 over {a (variable "
                "pinned by a constraint), b (alias of a constant), 2, 0.5} and every boolean tree over {p, q, true, a<b, a>=3.0} for each "
                "truth assignment of p,q, rendered minimally and fully parenthesised, as `r == <e>;`; depth<=1 trees also as initialiser, "
                "field initialiser, constructor argument/body, fact and goal argument, rule body, block and disjunct; the program is "
                "solved by the real solver in 2 (thorough 8) build configurations and r must equal the exact value. distinct_nontrivial "
                "= distinct expected token streams + distinct expected ASTs + distinct evaluation programs.",
        "samples": res["tokens/rel"]["samples"][:3] + res["parse/rel"]["samples"][:3],
        "exhaustive": all(r["exhaustive"] for r in res.values()),
        "parts": {k: {"counters": r["counters"], "distinct": r["distinct"], "exhaustive": r["exhaustive"], "wall_ms": r.get("wall_ms")} for k, r in res.items()},
    }
    out.assumptions = ["the reference lexer/grammar encode the language as described by riddle_lexer.h's token table and the precedence "
                       "climbing levels of the parser's design (DESIGN.md appendix A); 'this' is accepted as an identifier",
                       "a parenthesised single identifier is outside the alphabet (ambiguous with the cast syntax)"]
    return out.finish()


def c18(tier):
    out = Outcome("C18", tier, "fault_enumeration")
    parts = [("bytes/rel", "rel", "lexmc", ["--mode", "bytes"]), ("prefixes/rel", "rel", "lexmc", ["--mode", "prefixes", "--repo", vbuild.REPO]),
             ("bytes/dbg", "dbg", "lexmc", ["--mode", "bytes"]), ("prefixes/dbg", "dbg", "lexmc", ["--mode", "prefixes", "--repo", vbuild.REPO]),
             ("parse/dbg", "dbg", "lexmc", ["--mode", "parse"]), ("tokens/dbg", "dbg", "lexmc", ["--mode", "tokens"]),
             ("json/rel", "rel", "lexmc", ["--mode", "json"]), ("json/dbg", "dbg", "lexmc", ["--mode", "json"]),
             ("jsonapi/rel", "rel", "lexmc", ["--mode", "jsonapi"]), ("jsonapi/dbg", "dbg", "lexmc", ["--mode", "jsonapi"])]
    res = run_parts(out, parts, tier)
    # (b) valid programs: every program family through read()+solve() in Release and Debug+ASan+UBSan;
    #     only abnormal outcomes (abort, assertion, sanitizer report, foreign exception, no answer) are judged here
    fam_stats = []
    # (b') syntactically valid but ill-typed programs: a reported error (or an answer), never an abnormal termination
    fam_stats.append(named(run_family(out, "fam_ill", ["rel", "dbg"], tier, limit_ms=15000, only_keys_prefix="C18"), "fam_ill"))
    for fam in ("fam_cn", "fam_tl", "fam_rules", "fam_oo", "fam_eval"):
        if tier == "quick" and fam == "fam_eval":
            continue  # 28k expression programs: already run under the sanitizers by C16's quick check (dbg-hadd-ci); here in the thorough tier
        fam_stats.append(named(run_family(out, fam, ["dbg"] if tier == "quick" else ["rel", "dbg", "dbg-hadd-ci", "rel-hadd-ci"], tier, limit_ms=15000,
                                          after_read=(fam == "fam_oo"), only_keys_prefix="C18"), fam))
    # (c) valid API sequences on the constraint network with assertions on (Debug) and under the sanitizers
    net_parts = [("netmc-C07/dbg", "dbg", "netmc", ["--prop", "C07", "--depth_delta", "-1"]), ("netmc-C08/dbgn", "dbgn", "netmc", ["--prop", "C08", "--depth_delta", "-1"]),
                 ("reify/dbg", "dbg", "reify", []), ("relmc-C11/dbg", "dbg", "relmc", ["--prop", "C11"]), ("relmc-C12/dbg", "dbg", "relmc", ["--prop", "C12"])]
    if tier == "quick":  # UBSan + assertions over the C07 histories two levels below the value check; the rest in the thorough tier
        net_parts = [("netmc-C07/dbg", "dbg", "netmc", ["--prop", "C07", "--depth_delta", "-2"])]
    res_net = run_parts(out, net_parts, "quick")
    # only abnormal terminations of those runs belong to this property (their oracles are judged by C07..C13)
    out.findings = [f for f in out.findings if f["key"].startswith("C18") or f.get("engine") == "lexmc"]
    ev = sum(r["counters"].get("cases", 0) for r in res.values()) + sum(s["runs"] for s in fam_stats) + sum(r["counters"].get("histories", 0) + r["counters"].get("cases", 0) for r in res_net.values())
    acc = sum(r["counters"].get("accepted", 0) for r in res.values())
    rej = sum(r["counters"].get("rejected", 0) for r in res.values())
    out.coverage = {
        "evaluations": ev, "distinct_nontrivial": res["bytes/rel"]["counters"].get("cases", 0) + res["prefixes/rel"]["counters"].get("cases", 0),
        "rule": "fault model = arbitrary / truncated input text: EVERY byte string of length <=5 (thorough 6) over the 14-symbol alphabet "
                "{\" / * \\ LF a 1 . SP = ( { 0xFF e} (one representative per branch of lexer::next) plus oversized numerals, and EVERY "
                "prefix (thorough; quick: every 7th beyond the first 600 bytes) of every file under examples/, through lexer+parser, in the "
                "Release build and in the Debug+ASan+UBSan build; plus the valid token sequences and expression programs of C16 under the "
                "sanitizers; plus EVERY byte string of length <=5 (thorough 6) over the 16-symbol JSON alphabet { } [ ] \" : , 1 - . e t n SP \\ a "
                "through json::from_json + to_json (smt/json) in both builds, and EVERY sequence of <=4 (thorough 5) operations on two json handles "
                "(assignment from a temporary, from the other handle, from a member of itself or of the other handle, self-assignment, copy construction) "
                "followed by printing both. Allowed outcomes: accepted, or a std::exception, within 0.4 s (confirmed alone with 2 s); anything else "
                "(signal, std::terminate, sanitizer report, other exception, hang, >1 GB) is a violation. (b') ill-typed programs (lib/fam_ill.py): every binary operator on every ordered pair of "
                "{bool, real, object, string} operands and every unary operator, as statement, in a disjunct and in a rule (thorough: as "
                "initialiser too), through read()+solve() in Release and Debug+ASan: an answer or a reported error, never a signal. "
                "(b) valid programs: every program "
                "of the families of C01-C06, C16, C17 (constraint networks, timelines, rules, objects, expression evaluation) through "
                "read()+solve() in Debug+ASan+UBSan (thorough: four configurations incl. Release and the evaluation family): no abort, assertion, sanitizer report, "
                "foreign exception, and an answer within 15 s (confirmed alone with 45 s). (c) valid API sequences: the histories of C07 "
                "(two levels below its own depth; thorough: one level below, plus C08, C11, C12, C13) in the Debug+sanitizer build. distinct_nontrivial = distinct input texts of part (a) "
                "(all distinct by construction).",
        "samples": res["bytes/rel"]["samples"][:3] + res["prefixes/rel"]["samples"][:3],
        "exhaustive": all(r["exhaustive"] for r in res.values()),
        "accepted": acc, "rejected": rej,
        "parts": {k: {"counters": r["counters"], "exhaustive": r["exhaustive"], "wall_ms": r.get("wall_ms")} for k, r in list(res.items()) + list(res_net.items())},
        "program_families": {s["name"]: {k: s[k] for k in ("programs", "runs", "verdicts")} for s in fam_stats},
    }
    out.assumptions = ["AddressSanitizer/UBSan (g++ 12) report what they detect; the vptr check is off (see DESIGN.md: core::core() touches its env base before construction, a benign UB whose detection depends on stack garbage)",
                       "leak checking is off (the reader does not free the tokens of a rejected text; solver objects are owned by a live solver)",
                       "network harnesses replace operator new with a bump arena, so ASan does not see heap errors in those runs (assertions and UBSan still apply)"]
    return out.finish()


# ------------------------------------------------------------------------------------------------
PROPS = {"C19": c19, "C20": c20, "C17": c17, "C03": c03, "C04": c04, "C05": c05, "C06": c06, "C01": c01, "C02": c02, "C16": c16, "C18": c18, "C15": c15, "C13": c13, "C11": lambda tier: relmc_check("C11", tier), "C12": lambda tier: relmc_check("C12", tier)}
for _p in ("C07", "C08", "C09", "C10", "C14"):
    PROPS[_p] = (lambda pid: (lambda tier: netmc_check(pid, tier)))(_p)


def setup():
    t0 = time.time()
    for cfg in ["rel", "dbgn", "dbg", "dbg-hadd-ci"]:
        vbuild.ensure_tree(cfg, quiet=False)
    for cfg in ["rel", "dbg-hadd-ci"]:
        vbuild.ensure_harness(cfg, "progrun", quiet=False)
    for cfg in ["par", "par-tsan", "exec"]:
        vbuild.ensure_tree(cfg, quiet=False)
    vbuild.ensure_harness("exec", "execmc", quiet=False)
    vbuild.ensure_harness("dbgn", "seqref", quiet=False)
    vbuild.ensure_harness("par", "schedmc", extra_flags=["-rdynamic", "-ldl"], quiet=False)
    vbuild.ensure_harness("par-tsan", "racefree", quiet=False)
    for cfg, h in [("rel", "arith_enum"), ("dbgn", "arith_enum"), ("dbg", "arith_enum"), ("rel", "reify"), ("dbgn", "reify"), ("rel", "netmc"), ("dbgn", "netmc"), ("rel", "relmc"), ("dbgn", "relmc"), ("rel", "lexmc"), ("dbgn", "lexmc"), ("dbg", "lexmc"), ("dbg", "netmc"), ("dbg", "relmc"), ("dbg", "progrun")]:
        vbuild.ensure_harness(cfg, h, quiet=False)
    print("setup done in %.0fs" % (time.time() - t0))
    return 0


def replay(pid, path):
    r = json.load(open(path))
    cfg = r.get("cfg") or "rel"
    eng = r.get("engine")
    if eng and eng.startswith("progrun:"):
        import riddle
        fam = family(eng.split(":", 1)[1])
        progs = [p for p in fam.generate(True) + fam.generate(False) if p[1] == r["case"]]
        if not progs:
            print("replay: program not found in family")
            return 2
        res = riddle.run_programs(cfg, [(progs[0][0], progs[0][1])], after_read=getattr(fam, "AFTER_READ", False), limit_ms=60000, tag="replay")
        rr = res.get(progs[0][0], {"verdict": "missing", "what": ""})
        j = fam.judge(progs[0], rr)
        keys = [k for k, _ in (j if isinstance(j, list) else ([j] if j else []))]
        print("verdict:", rr.get("verdict"), rr.get("what", "")[:500])
        print("judged:", j)
        ok = r["key"] in keys
        print("replay: %s" % ("REPRODUCED" if ok else "not reproduced"))
        if ok:
            print("VIOLATION property=%s replay=%s" % (pid, path))
        return 1 if ok else 0
    if eng == "schedmc":
        vbuild.ensure_tree("dbgn")
        seq = vbuild.ensure_harness("dbgn", "seqref")
        os.makedirs(TMP, exist_ok=True)
        expect = os.path.join(TMP, "c20.seq.replay.txt")
        with open(expect, "w") as f:
            subprocess.check_call([seq], stdout=f)
        vbuild.ensure_tree("par")
        exe = vbuild.ensure_harness("par", "schedmc", extra_flags=["-rdynamic", "-ldl"])
        ok, txt = common.replay_confirm(exe, r["case"], args=["--expect", expect])
        print(txt)
        print("replay: %s" % ("REPRODUCED" if ok else "not reproduced"))
        if ok:
            print("VIOLATION property=%s replay=%s" % (pid, path))
        return 1 if ok else 0
    exe = prep(cfg, eng)
    ok, txt = common.replay_confirm(exe, r["case"], args=r.get("args", []))
    print(txt)
    print("replay: %s" % ("REPRODUCED" if ok else "not reproduced"))
    if ok:
        print("VIOLATION property=%s replay=%s" % (pid, path))
    return 1 if ok else 0


def main(argv):
    if not argv or argv[0] in ("-h", "--help"):
        print(__doc__)
        print("usage: check --setup | check <ID> quick|thorough | check <ID> --replay FILE")
        return 2
    try:
        if argv[0] == "--setup":
            return setup()
        pid = argv[0]
        if pid not in PROPS:
            print("unknown property " + pid)
            return 2
        if len(argv) >= 3 and argv[1] == "--replay":
            return replay(pid, argv[2])
        tier = argv[1] if len(argv) > 1 else os.environ.get("VERIF_TIER", "quick")
        return PROPS[pid](tier)
    except vbuild.BuildError as e:
        print("HARNESS-ERROR: " + str(e))
        return 2
