"""Build orchestration: cmake/ninja trees of the code under test + harness drivers.

Every check calls ensure_tree(cfg) (re-configures + incremental ninja build of $VERIF_REPO's
*working tree*) and ensure_harness(cfg, name) (g++ with -MMD dependency tracking, so a harness
is recompiled whenever a repo header it includes - e.g. the header-only inf_rational.h - or a
library it links changes).  Trees live under $VERIF_BUILD (default /verif/build).
"""
import fcntl, hashlib, json, os, subprocess, sys, time

VERIF = os.path.dirname(os.path.dirname(os.path.abspath(__file__)))
REPO = os.environ.get("VERIF_REPO", "/repo")
BUILD = os.environ.get("VERIF_BUILD", os.path.join(VERIF, "build"))
JOBS = int(os.environ.get("VERIF_JOBS", str(os.cpu_count() or 4)))

ASAN = "-fsanitize=address,undefined -fno-sanitize=vptr -fno-sanitize-recover=undefined -fno-omit-frame-pointer"
TSAN = "-fsanitize=thread -fno-omit-frame-pointer"

# cfg -> (cmake build type, extra cxx flags, cmake options)
CONFIGS = {
    "rel": ("RelWithDebInfo", "-Wno-error", {}),
    "dbg": ("Debug", "-Wno-error " + ASAN, {}),
    "rel-hadd": ("RelWithDebInfo", "-Wno-error", {"HEURISTIC_TYPE": "h_add"}),
    "rel-ci": ("RelWithDebInfo", "-Wno-error", {"CHECK_INCONSISTENCIES": "ON"}),
    "rel-hadd-ci": ("RelWithDebInfo", "-Wno-error", {"HEURISTIC_TYPE": "h_add", "CHECK_INCONSISTENCIES": "ON"}),
    "dbg-hadd": ("Debug", "-Wno-error " + ASAN, {"HEURISTIC_TYPE": "h_add"}),
    "dbg-ci": ("Debug", "-Wno-error " + ASAN, {"CHECK_INCONSISTENCIES": "ON"}),
    "dbg-hadd-ci": ("Debug", "-Wno-error " + ASAN, {"HEURISTIC_TYPE": "h_add", "CHECK_INCONSISTENCIES": "ON"}),
    # Debug without sanitizers (assertions on, deterministic arena usable)
    # (-O1: what matters for the properties is that NDEBUG is off; -O0 makes exhaustive runs 5-10x slower)
    "dbgn": ("Debug", "-Wno-error -O1", {}),
    "par": ("Debug", "-Wno-error", {"PARALLELIZE": "ON"}),
    "par-rel": ("RelWithDebInfo", "-Wno-error", {"PARALLELIZE": "ON"}),
    "par-tsan": ("Debug", "-Wno-error " + TSAN, {"PARALLELIZE": "ON"}),
    "exec": ("Debug", "-Wno-error", {"BUILD_EXECUTOR": "ON"}),
    "exec-rel": ("RelWithDebInfo", "-Wno-error", {"BUILD_EXECUTOR": "ON"}),
    "exec-asan": ("Debug", "-Wno-error " + ASAN, {"BUILD_EXECUTOR": "ON"}),
}

INCLUDE_DIRS = ["smt", "smt/arith", "smt/arith/lra", "smt/arith/dl", "smt/ov", "smt/json", "smt/concurrent",
                "riddle", "core", "solver", "solver/flaws", "solver/types", "solver/heuristics", "executor"]
GEN_DIRS = ["smt", "smt/json", "smt/concurrent", "riddle", "core", "solver", "executor"]


class BuildError(Exception):
    pass


def tree_dir(cfg):
    return os.path.join(BUILD, cfg)


class _Lock:
    def __init__(self, path):
        self.path = path

    def __enter__(self):
        os.makedirs(os.path.dirname(self.path), exist_ok=True)
        self.f = open(self.path, "w")
        fcntl.flock(self.f, fcntl.LOCK_EX)
        return self

    def __exit__(self, *a):
        fcntl.flock(self.f, fcntl.LOCK_UN)
        self.f.close()


def _run(cmd, log, **kw):
    with open(log, "ab") as lf:
        lf.write(("\n$ " + " ".join(cmd) + "\n").encode())
        lf.flush()
        p = subprocess.run(cmd, stdout=lf, stderr=subprocess.STDOUT, **kw)
    return p.returncode


def ensure_tree(cfg, targets=None, quiet=True):
    """Configure (always, cheap; picks up new files through the GLOBs) and build the tree."""
    btype, flags, opts = CONFIGS[cfg]
    d = tree_dir(cfg)
    os.makedirs(d, exist_ok=True)
    log = os.path.join(d, "verif-build.log")
    with _Lock(os.path.join(BUILD, cfg + ".lock")):
        t0 = time.time()
        cmd = ["cmake", "-G", "Ninja", "-S", REPO, "-B", d, "-DCMAKE_BUILD_TYPE=" + btype,
               "-DCMAKE_CXX_FLAGS=" + flags, "-DBUILD_TESTING=OFF", "-Wno-dev"]
        all_opts = {"HEURISTIC_TYPE": "h_max", "CHECK_INCONSISTENCIES": "OFF", "PARALLELIZE": "OFF",
                    "BUILD_EXECUTOR": "OFF", "TEMPORAL_NETWORK_TYPE": "LA", "DEFERRABLE_FLAWS": "ON",
                    "GRAPH_PRUNING": "ON"}
        all_opts.update(opts)
        for k, v in sorted(all_opts.items()):
            cmd.append("-D%s=%s" % (k, v))
        if os.path.exists(log) and os.path.getsize(log) > 4 << 20:
            os.remove(log)
        if _run(cmd, log) != 0:
            raise BuildError("cmake configure failed for %s (see %s)" % (cfg, log))
        bcmd = ["cmake", "--build", d, "-j", str(JOBS)]
        if targets:
            bcmd += ["--target"] + list(targets)
        if _run(bcmd, log) != 0:
            raise BuildError("build failed for %s (see %s)" % (cfg, log))
        if not quiet:
            print("[build] tree %s ok (%.1fs)" % (cfg, time.time() - t0), flush=True)
    return d


def _san_flags(cfg):
    flags = CONFIGS[cfg][1]
    if "address" in flags:
        return ASAN.split()
    if "thread" in flags:
        return TSAN.split()
    return []


def _defs(cfg):
    d = []
    opts = CONFIGS[cfg][2]
    if opts.get("PARALLELIZE") == "ON":
        d.append("-DPARALLELIZE")
    if opts.get("BUILD_EXECUTOR") == "ON":
        d.append("-DBUILD_LISTENERS")
    if CONFIGS[cfg][0] != "Debug":
        d.append("-DNDEBUG")
    return d


def harness_cmd(cfg, name, src, out, extra_flags=(), libs=None):
    d = tree_dir(cfg)
    cmd = ["g++", "-std=c++17", "-g", "-fno-access-control", "-Wno-deprecated-declarations", "-MMD", "-MF", out + ".d"]
    cmd += ["-O1"] if CONFIGS[cfg][0] == "Debug" else ["-O2"]
    cmd += _defs(cfg) + _san_flags(cfg)
    cmd += ["-DVERIF_CFG=\"%s\"" % cfg]
    cmd += ["-I" + os.path.join(VERIF, "engine")]
    for i in INCLUDE_DIRS:
        cmd.append("-I" + os.path.join(REPO, i))
    for g in GEN_DIRS:
        cmd.append("-I" + os.path.join(d, g))
    cmd += list(extra_flags)
    cmd += [src, "-o", out, "-L" + os.path.join(d, "lib"), "-Wl,-rpath," + os.path.join(d, "lib")]
    if libs is None:
        libs = ["solver", "core", "riddle", "smt", "json"]
        if CONFIGS[cfg][2].get("BUILD_EXECUTOR") == "ON":
            libs = ["executor"] + libs
        if CONFIGS[cfg][2].get("PARALLELIZE") == "ON":
            libs = libs + ["concurrent"]
    cmd += ["-l" + l for l in libs] + ["-lpthread"]
    return cmd


def _deps_newer(depfile, out):
    try:
        mt = os.path.getmtime(out)
        txt = open(depfile).read().replace("\\\n", " ")
    except OSError:
        return True
    parts = txt.split(":", 1)
    if len(parts) < 2:
        return True
    for f in parts[1].split():
        try:
            if os.path.getmtime(f) > mt:
                return True
        except OSError:
            return True
    return False


def ensure_harness(cfg, name, extra_flags=(), libs=None, src=None, quiet=True):
    """Compile harness/<name>.cpp against tree cfg; returns path of the executable."""
    d = tree_dir(cfg)
    hd = os.path.join(d, "h")
    os.makedirs(hd, exist_ok=True)
    src = src or os.path.join(VERIF, "harness", name + ".cpp")
    out = os.path.join(hd, name)
    cmd = harness_cmd(cfg, name, src, out, extra_flags, libs)
    sig = hashlib.sha1(json.dumps(cmd).encode()).hexdigest()
    with _Lock(os.path.join(BUILD, cfg + ".h." + name + ".lock")):
        stale = _deps_newer(out + ".d", out)
        if not stale:
            # libs relinked?
            mt = os.path.getmtime(out)
            libdir = os.path.join(d, "lib")
            for f in os.listdir(libdir):
                if os.path.getmtime(os.path.join(libdir, f)) > mt:
                    stale = True
        try:
            if open(out + ".sig").read() != sig:
                stale = True
        except OSError:
            stale = True
        if stale:
            t0 = time.time()
            log = os.path.join(hd, name + ".log")
            if os.path.exists(log):
                os.remove(log)
            if _run(cmd, log) != 0:
                sys.stderr.write(open(log, errors="replace").read()[-6000:])
                raise BuildError("harness %s failed to compile for %s (see %s)" % (name, cfg, log))
            open(out + ".sig", "w").write(sig)
            if not quiet:
                print("[build] harness %s/%s ok (%.1fs)" % (cfg, name, time.time() - t0), flush=True)
    return out
