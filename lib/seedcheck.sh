#!/bin/bash
# Confirms a seeded change in its scratch worktree:  seedcheck.sh <ID> [cmake extra opts]
#   1. patch applied  -> default-config build + the repository's 82 tests must pass
#   2. demo built and run with the change (must report the violation, exit != 0)
#   3. patch reversed -> rebuild, demo run again (must be ok, exit 0), patch re-applied
set -u
ID=$1; WT=/tmp/wt-$ID; SD=/tmp/seed-$ID
cd $WT || exit 2
git diff --quiet && git apply $SD/patch.diff
b() { cmake -G Ninja -B build -DCMAKE_BUILD_TYPE=RelWithDebInfo -DCMAKE_CXX_FLAGS=-Wno-error -Wno-dev ${2:-} >/dev/null && cmake --build build -j16 >/dev/null; }
b || { echo "BUILD FAILED with change"; exit 2; }
echo "== tests with the change:"; ctest --test-dir build -j8 --timeout 900 2>&1 | grep "tests passed\|tests failed"
rundemo() {
  if [ -x $SD/build_demo.sh ]; then (cd $SD && ./build_demo.sh >/dev/null 2>&1); elif [ -x $SD/build.sh ]; then (cd $SD && ./build.sh >/dev/null 2>&1); else
    (cd $SD && g++ -std=c++17 -fno-access-control -I$WT/smt -I$WT/smt/arith -I$WT/smt/arith/lra -I$WT/smt/arith/dl -I$WT/smt/ov -I$WT/smt/json -I$WT/riddle -I$WT/core -I$WT/solver -I$WT/solver/flaws -I$WT/solver/types -I$WT/solver/heuristics -I$WT/build/smt -I$WT/build/smt/json -I$WT/build/riddle -I$WT/build/core -I$WT/build/solver demo.cpp -L$WT/build/lib -Wl,-rpath,$WT/build/lib -lsolver -lcore -lriddle -lsmt -ljson -o demo 2>&1 | tail -3); fi
  (cd $SD && timeout 120 ./demo 2>&1 | tail -4); echo "demo exit=$?"
}
echo "== demo WITH the change:"; rundemo
git apply -R $SD/patch.diff && b
echo "== demo WITHOUT the change:"; rundemo
git apply $SD/patch.diff && b
