"""C01 / C02(a): constraint-network programs.

    real x; real y; bool p;  + every subset of <= 3 statements of a pool of relations between linear
    expressions (strict, non-strict, ==, !=), boolean combinations (| -> ^ ! == under and outside
    negation) and `{..} or {..}` disjunction statements (with and without costs).

C01: a reported solution makes every statement true under exact (rational, eps) arithmetic.
C02: 'unsolvable' / 'inconsistent' only if an independent complete procedure (truth assignments of the
atoms x Fourier-Motzkin with strictness and disequality splitting) finds no model.
"""
import itertools
from fractions import Fraction as F
from riddle import render, eval_expr, lit, env_of, LEVEL

X, Y, P = ("id", "x"), ("id", "y"), ("id", "p")

# statement kinds whose truth can be left to theory atoms that no flaw ever decides (see known_findings.json):
# a class-level disagreement that involves one of them is keyed by that construct
UNDECIDED_ATOM_KINDS = ["bool:!^", "bool:^", "bool:^3", "relation:!=", "bool:!rel"]


def rel(op, l, r):
    return ("bin", op, l, r)


def n(v):
    return lit(v)


def add(*a):
    return ("nary", "+", list(a))


def sub(*a):
    return ("nary", "-", list(a))


def mul(*a):
    return ("nary", "*", list(a))


def pool(thorough):
    S = []  # (kind, statement) ; statement = ("assert", expr) | ("or", [[expr..]..], costs|None)
    rels = [rel("<=", X, n(1)), rel(">=", X, n(3)), rel("<", X, Y), rel(">", X, n(1)), rel("==", X, n(2)), rel("!=", X, n(2)),
            rel("<=", add(X, Y), n(2)), rel(">=", sub(X, Y), n(1)), rel("==", Y, mul(n(2), X)), rel(">=", Y, n(2)), rel("<", Y, n(0)),
            rel("!=", X, Y), rel("==", add(X, Y), n(3)), rel("<=", X, n(0)), rel(">", add(X, n(1)), Y), rel(">=", Y, n(5))]
    if thorough:
        rels += [rel(">=", mul(X, n(2)), add(Y, n(1))), rel("<", sub(X, Y, n(1)), n(0)), rel("==", X, Y), rel("!=", add(X, Y), n(2)), rel("<=", ("un", "-", X), n(-3))]
    for r in rels:
        S.append(("relation:" + r[1], ("assert", r)))
    a1, a2, a3 = rel("<=", X, n(1)), rel(">=", Y, n(2)), rel("==", X, Y)
    bools = [
        ("bool:var", P), ("bool:!var", ("un", "!", P)),
        ("bool:|", ("nary", "|", [P, a1])), ("bool:->", ("bin", "->", P, a2)), ("bool:!rel", ("un", "!", a3)),
        ("bool:^", ("nary", "^", [a1, a2])), ("bool:!^", ("un", "!", ("nary", "^", [a1, P]))),
        ("bool:==", ("bin", "==", P, rel(">=", X, n(2)))), ("bool:!|", ("un", "!", ("nary", "|", [P, a1]))),
        ("bool:&", ("nary", "&", [rel("<", X, n(1)), rel(">", Y, X)])), ("bool:!->", ("un", "!", ("bin", "->", a1, P))),
        ("bool:!=", ("bin", "!=", P, a2)), ("bool:!&", ("un", "!", ("nary", "&", [P, a2]))),
        ("bool:^3", ("nary", "^", [P, a1, a2])),
    ]
    for k, b in bools:
        S.append((k, ("assert", b)))
    S.append(("or-stmt", ("or", [[rel("<=", X, n(1))], [rel(">=", X, n(3))]], None)))
    S.append(("or-stmt:multi", ("or", [[rel("==", X, n(1)), rel("==", Y, n(2))], [P]], None)))
    S.append(("or-stmt:cost", ("or", [[rel(">=", Y, n(5))], [rel("<=", Y, n(-5))]], [n(2), n(1)])))
    S.append(("or-stmt:bool", ("or", [[("un", "!", P)], [rel("<", X, Y), P]], None)))
    # constraints with non-unit coefficients that are only created when their disjunct is chosen, i.e. after earlier
    # statements have been propagated (and may have made x or y basic in the tableau)
    S.append(("relation:>=", ("assert", rel(">=", sub(X, Y), n(4)))))
    S.append(("or-stmt:scaled", ("or", [[rel("<=", mul(n(2), X), add(mul(n(3), Y), n(2)))], [rel(">=", mul(n(2), Y), add(X, n(20)))]], None)))
    # disjuncts that declare a local with the same name: each disjunct has its own scope (4th element = the text as
    # written; the disjunct lists hold the meaning with the local replaced by its definition)
    S.append(("or-stmt:locals", ("or", [[rel("<=", add(X, n(1)), n(5))], [rel(">=", sub(X, n(1)), n(5))]], None,
                                 "{ real w = x + 1.0; w <= 5.0; } or { real w = x - 1.0; w >= 5.0; }")))
    S.append(("or-stmt:locals-cost", ("or", [[rel(">=", Y, n(4)), rel("<=", add(Y, X), n(3))], [rel("<=", sub(Y, n(2)), n(0)), rel(">=", X, n(4))]], [n(1), n(2)],
                                      "{ real w = y; w >= 4.0; w + x <= 3.0; } [1.0] or { real w = y - 2.0; w <= 0.0; x >= 4.0; } [2.0]")))
    # disjuncts that declare a local boolean (its two values must not force the disjunct that declares it)
    S.append(("or-stmt:local-bools", ("or", [[rel(">=", X, n(1))], [rel("<=", X, n(0))]], None,
                                      "{ bool c; x >= 1.0; } or { bool d; x <= 0.0; }")))
    S.append(("or-stmt:local-bools-used", ("or", [[rel(">=", Y, n(3))], [rel("<=", Y, n(1))]], None,
                                           "{ bool c; c; y >= 3.0; } or { bool c; !c; y <= 1.0; }")))
    if thorough:
        S.append(("or-stmt:3", ("or", [[rel("==", X, n(0))], [rel("==", X, n(1))], [rel("==", X, n(2))]], None)))
    return S


def render_stmt(st):
    if st[0] == "assert":
        return render(st[1]) + ";"
    if len(st) > 3:
        return st[3]
    parts = []
    for i, conj in enumerate(st[1]):
        s = "{ " + " ".join(render(c) + ";" for c in conj) + " }"
        if st[2]:
            s += " [" + render(st[2][i]) + "]"
        parts.append(s)
    return " or ".join(parts)


def program_text(stmts):
    return "real x; real y; bool p; " + " ".join(render_stmt(s) for _, s in stmts)


def generate(thorough):
    S = pool(thorough)
    progs = []
    k = 0
    for size in (1, 2, 3):
        for combo in itertools.combinations(range(len(S)), size):
            stmts = [S[i] for i in combo]
            k += 1
            progs.append(("cn%d" % k, program_text(stmts), {"stmts": stmts}))
    # exactly-one over n declared booleans (every one has its own flaw, so none stays undecided): n = 2..9 covers the pairwise
    # encoding (n < 4) and complete / incomplete grids of the product encoding
    for nq in range(2, 10):
        qs = [("id", "q%d" % i) for i in range(nq)]
        stmts = [("bool:^n-vars", ("assert", ("nary", "^", qs)))]
        k += 1
        progs.append(("cn%d" % k, "real x; real y; bool p; " + " ".join("bool q%d;" % i for i in range(nq)) + " " + render_stmt(stmts[0][1]), {"stmts": stmts, "always_sat": True}))
    # boxes: both variables bounded from both sides, a strict difference between them, and one disjunction whose two
    # disjuncts are ORDERED pairs of bound statements (with and without costs): row-bound propagation over a row with
    # coefficients of both signs happens below root level, with reasons that conflict analysis must keep
    base = [("relation:>=", ("assert", rel(">=", X, n(4)))), ("relation:<=", ("assert", rel("<=", X, n(50)))),
            ("relation:>=", ("assert", rel(">=", Y, n(0)))), ("relation:<=", ("assert", rel("<=", Y, n(50)))),
            ("relation:>", ("assert", rel(">", X, Y)))]
    bp = [rel(">=", Y, n(5)), rel("<=", Y, n(3)), rel("<=", X, n(5)), rel(">=", X, n(6))] + ([rel(">=", Y, X)] if thorough else [])
    pairs = [(a, b) for a in bp for b in bp if a is not b]
    for d1 in pairs:
        for d2 in pairs:
            if d1 == d2:
                continue
            for costs in (None, [n(1), n(2)]):
                if not thorough and costs is None and (pairs.index(d1) + pairs.index(d2)) % 2:
                    continue
                stmts = base + [("or-stmt:box", ("or", [list(d1), list(d2)], costs))]
                k += 1
                progs.append(("cn%d" % k, program_text(stmts), {"stmts": stmts}))
    return progs


# ---- reference decision procedure -------------------------------------------------------------------------
def atoms_of(e, acc):
    k = e[0]
    if k == "bin" and e[1] in ("<", "<=", ">=", ">") or (k == "bin" and e[1] in ("==", "!=") and not is_boolish(e[2])):
        acc.append(e)
        return
    if k == "un":
        atoms_of(e[2], acc)
    elif k == "nary":
        for c in e[2]:
            atoms_of(c, acc)
    elif k == "bin":
        atoms_of(e[2], acc)
        atoms_of(e[3], acc)


def is_boolish(e):
    k = e[0]
    if k == "bool":
        return True
    if k == "id":
        return e[1] == "p"
    if k == "un":
        return e[1] == "!"
    if k == "nary":
        return e[1] in "&|^"
    if k == "bin":
        return True
    return False


def linform(e):
    """(cx, cy, k) of a linear arithmetic expression"""
    k = e[0]
    if k == "num":
        return (F(0), F(0), e[1])
    if k == "id":
        return (F(1), F(0), F(0)) if e[1] == "x" else (F(0), F(1), F(0))
    if k == "un":
        a = linform(e[2])
        return a if e[1] == "+" else (-a[0], -a[1], -a[2])
    if k == "nary":
        vs = [linform(c) for c in e[2]]
        acc = vs[0]
        for v in vs[1:]:
            if e[1] == "+":
                acc = (acc[0] + v[0], acc[1] + v[1], acc[2] + v[2])
            elif e[1] == "-":
                acc = (acc[0] - v[0], acc[1] - v[1], acc[2] - v[2])
            elif e[1] == "*":
                if acc[0] == 0 and acc[1] == 0:
                    acc = (v[0] * acc[2], v[1] * acc[2], v[2] * acc[2])
                else:
                    acc = (acc[0] * v[2], acc[1] * v[2], acc[2] * v[2])
            else:
                acc = (acc[0] / v[2], acc[1] / v[2], acc[2] / v[2])
        return acc
    raise ValueError(e)


def fm_feasible(rows):
    """rows: (a, b, c, strict) meaning a*x + b*y <= c (or <).  Fourier-Motzkin on two variables."""
    for var in (0, 1):
        pos = [r for r in rows if r[var] > 0]
        neg = [r for r in rows if r[var] < 0]
        rest = [r for r in rows if r[var] == 0]
        for p in pos:
            for q in neg:
                fp, fq = 1 / p[var], 1 / -q[var]
                rest.append((p[0] * fp + q[0] * fq, p[1] * fp + q[1] * fq, p[2] * fp + q[2] * fq, p[3] or q[3]))
        rows = rest
    for a, b, c, s in rows:
        if (c < 0) or (s and c <= 0):
            return False
    return True


def theory_feasible(lits):
    """lits: list of (atom, truth).  Splits disequalities, then Fourier-Motzkin."""
    rows, neqs = [], []
    for atom, truth in lits:
        l, r = linform(atom[2]), linform(atom[3])
        a, b, c = l[0] - r[0], l[1] - r[1], r[2] - l[2]  # a x + b y  (op)  c
        op = atom[1]
        if not truth:
            op = {"<": ">=", "<=": ">", ">=": "<", ">": "<=", "==": "!=", "!=": "=="}[op]
        if op == "<=":
            rows.append((a, b, c, False))
        elif op == "<":
            rows.append((a, b, c, True))
        elif op == ">=":
            rows.append((-a, -b, -c, False))
        elif op == ">":
            rows.append((-a, -b, -c, True))
        elif op == "==":
            rows.append((a, b, c, False))
            rows.append((-a, -b, -c, False))
        else:
            neqs.append((a, b, c))
    for choice in itertools.product((0, 1), repeat=len(neqs)):
        rr = list(rows)
        for (a, b, c), ch in zip(neqs, choice):
            rr.append((a, b, c, True) if ch == 0 else (-a, -b, -c, True))
        if fm_feasible(rr):
            return True
    return False


def eval_skeleton(e, val, pv):
    """boolean value of e given truth values of its atoms (dict by id) and of p"""
    k = e[0]
    if id(e) in val:
        return val[id(e)]
    if k == "bool":
        return e[1]
    if k == "id":
        return pv
    if k == "un":
        return not eval_skeleton(e[2], val, pv)
    if k == "nary":
        vs = [eval_skeleton(c, val, pv) for c in e[2]]
        return all(vs) if e[1] == "&" else any(vs) if e[1] == "|" else sum(vs) == 1
    l, r = eval_skeleton(e[2], val, pv), eval_skeleton(e[3], val, pv)
    return {"->": (not l) or r, "==": l == r, "!=": l != r}[e[1]]


def has_model(stmts):
    exprs = []
    for _, st in stmts:
        if st[0] == "assert":
            exprs.append(st[1])
        else:
            for conj in st[1]:
                exprs.extend(conj)
    atoms = []
    for e in exprs:
        atoms_of(e, atoms)
    # identical atoms (by rendering) share a truth value
    groups = {}
    for a in atoms:
        groups.setdefault(render(a, True), []).append(a)
    keys = list(groups)
    for pv in (True, False):
        for tv in itertools.product((True, False), repeat=len(keys)):
            val = {}
            for kx, t in zip(keys, tv):
                for a in groups[kx]:
                    val[id(a)] = t
            ok = True
            for _, st in stmts:
                if st[0] == "assert":
                    ok = eval_skeleton(st[1], val, pv)
                else:
                    ok = any(all(eval_skeleton(c, val, pv) for c in conj) for conj in st[1])
                if not ok:
                    break
            if ok and theory_feasible([(groups[kx][0], t) for kx, t in zip(keys, tv)]):
                return True
    return False


def stmt_holds(st, env):
    if st[0] == "assert":
        return eval_expr(st[1], env) is True
    return any(all(eval_expr(c, env) is True for c in conj) for conj in st[1])


def judge(prog, res):
    pid, text, m = prog
    v = res.get("verdict")
    kinds = "+".join(sorted({k for k, _ in m["stmts"]}))
    if v in ("abort", "exception", "bad-json", "missing"):
        return ("C18:valid-program:%s:%s" % (v, kinds), "%s: %s" % (v, res.get("what", "")[:600]))
    if v == "timeout":  # undecided for C01/C02; a tiny program that gets no answer is a hang for C18
        return ("C18:valid-program:no-answer-within-limit:" + kinds, res.get("what", ""))
    if v == "reader-error":
        return ("C16:valid-program-rejected:" + kinds, "the reader rejected the program: " + res.get("what", ""))
    if v in ("unsolvable", "inconsistent"):
        if m.get("always_sat") or has_model(m["stmts"]):
            return ("C02:spurious-%s:%s" % (v, kinds), "reported %s, but the statements have a model (truth-assignment enumeration x Fourier-Motzkin)" % v)
        return None
    env = env_of(res["solution"].get("exprs", []))
    out = []
    for kind, st in m["stmts"]:
        if not stmt_holds(st, env):
            val = {k: env.get(k) for k in ("x", "y", "p")}
            out.append(("C01:statement-false-in-solution:" + kind, "statement `%s` does not hold for the reported values %s" % (render_stmt(st), {k: (str(v[0]) + ("" if not v[1] else "+%s eps" % v[1]) if isinstance(v, tuple) else v) for k, v in val.items()})))
    return out or None
