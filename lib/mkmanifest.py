#!/usr/bin/env python3
"""Regenerates /verif/MANIFEST.json from the table below (run after adding a check)."""
import json, os, sys

VERIF = os.path.dirname(os.path.dirname(os.path.abspath(__file__)))

CHECKS = {
    "C15": dict(engine="arith_enum", category="exploration", design_ref="DESIGN.md §4 C15",
                technique="bounded exhaustive enumeration of operands x operator forms against a reference arithmetic",
                text="Every declared operator form of rational / inf_rational / lin is executed on every operand pair of a finite "
                     "grid (non-reduced, negative-denominator, zero, +-inf inputs included) in Release and Debug builds and compared "
                     "with an independent exact arithmetic (value, canonical form, total order). Exhaustive inside the grid; "
                     "says nothing about values near int64 overflow, which the property excludes.",
                note="Trusted: engine/refq.h (__int128 rationals + dual numbers), g++ 12. Operators that abort are caught by "
                     "running every form in forked workers."),
    "C13": dict(engine="reify", category="exploration", design_ref="DESIGN.md §4 C13",
                technique="bounded exhaustive enumeration of root-level construction histories on the real sat_core, truth-table oracle",
                text="All argument lists up to length 3-4 over 2-4 variables (duplicates, complements, root-decided literals), all root "
                     "pre-assignments, one- and two-call histories (cache hit/miss, amo-then-exo, ...), product encoding with 4-6 "
                     "distinct variables and incomplete grids of 5..8 (thorough 10) variables in both orders with every sign pattern; every construct is re-judged after every later step against the full truth table of the "
                     "clause database. Exhaustive inside these bounds; longer lists only through the distinct-variable family.",
                note="Trusted: engine/tt.h bitset truth tables; clause database read with -fno-access-control."),
    "C07": dict(engine="netmc", category="model_checking", design_ref="DESIGN.md §4 C07",
                technique="stateless depth-bounded exhaustive exploration of API histories on the real sat_core + theories; reference model set by truth table x Fourier-Motzkin / Floyd-Warshall",
                text="Every history up to depth 4 (thorough 5) over assume/pop/next/propagate/check/new_clause/simplify_db on every small "
                     "network of the families (pure SAT clause subsets, LRA-, IDL- and RDL-linked networks) is executed on the real code; "
                     "after each one every reported value, recorded clause, root assignment, negative answer and refused decision is "
                     "compared with the exact set of models. Exhaustive within networks/depth; learnt-clause soundness is checked "
                     "globally, not per conflict-analysis step.",
                note="Trusted: truth tables (tt.h), FM/FW (fm.h). Histories respect the documented precondition (assume on undefined literals)."),
    "C08": dict(engine="netmc", category="model_checking", design_ref="DESIGN.md §4 C08",
                technique="stateless exhaustive exploration of assume/pop/next histories; differential oracle against a fresh network asserting the same literals",
                text="All assume/pop/next histories up to depth 5 (thorough 7) on five networks built to update the same bound / distance / "
                     "domain repeatedly across levels, plus pure-SAT networks (every pair / triple of a 20-clause pool with two more clauses on the same watched literals); after each history all bounds, distances and domains must equal those of a fresh "
                     "network in which only the currently true literals were asserted - and, for networks without LRA atoms, that fresh network must not derive any additional literal - and at root only root consequences may remain.",
                note="For networks with LRA atoms the comparison is skipped (and counted) when the fresh network derives extra literals: LRA bound propagation is incomplete and order dependent. lra.value() is not compared (history dependent by design)."),
    "C09": dict(engine="netmc", category="model_checking", design_ref="DESIGN.md §4 C09",
                technique="stateless exhaustive exploration of assert/negate/retract histories on lra_theory; Fourier-Motzkin reference with strictness",
                text="All 3-atom networks from a pool of 32 (thorough 96) linear atoms over two reals (shared sub-expressions) and all 4-atom networks from a 12-atom pool over x, y, x-y, all "
                     "assume/pop/next histories up to depth 4 (5): feasibility, values, tableau rows, bounds vs exact projections and "
                     "validity of every conflict/lemma are decided by Fourier-Motzkin on each history.",
                note="Two real variables, coefficients in {-1,0,1,2}; termination of pivoting is only covered through the per-case watchdog."),
    "C10": dict(engine="netmc", category="model_checking", design_ref="DESIGN.md §4 C10",
                technique="stateless exhaustive exploration of assert/negate/retract histories on idl_theory and rdl_theory; Floyd-Warshall reference",
                text="All interacting 3-atom networks over 4 time points (matrix growth included) for both theories, all assume/pop/next "
                     "histories up to depth 4 (5), plus 120 six-atom relaxation networks with every binary clause (decisions on positive literals + pop, depth 5 (6)): the whole distance matrix must equal the Floyd-Warshall closure, conflicts iff "
                     "negative cycle, decided atoms propagated, explanations valid.",
                note="Integer constants -2..2, half-integers for RDL; +-inf with a residual infinitesimal part is treated as +-inf."),
    "C14": dict(engine="netmc", category="model_checking", design_ref="DESIGN.md §4 C14",
                technique="exhaustive enumeration of domain pairs + assume/pop/next/propagate histories on ov_theory; truth-table oracle",
                text="Every pair of non-empty domains over 3 (thorough 4) values with one or two equality requests: truth table of the "
                     "database (exactly one value, every allowed value possible, equality <=> same value) and all histories up to depth 5 "
                     "(domain reported = values not excluded; entailment oracle); also variables created without the exactly-one clause (every pair of domains), variables derived from the value literals of another variable (every pair of injective value maps) and 5 (6) variables with equalities requested at every creation point.",
                note="Object variables only through ov_theory's API; the planner-side use of these variables is judged by C17."),
    "C11": dict(engine="relmc", category="exploration", design_ref="DESIGN.md §4 C11",
                technique="bounded exhaustive enumeration of relation requests x preludes x model grid on the real lra_theory; per grid point a complete search through the API decides whether the literal can be true/false",
                text="Every relation between every pair of a 12-16 expression pool (cancelling, repeated, scaled, basic variables), as first "
                     "or second request after 10 kinds of root preludes (two of them with a slack variable whose tableau row has a constant term), is judged at every point of a 5x5 rational grid: the literal must "
                     "be satisfiable iff the relation holds there and refutable iff it does not; no grid solution may be lost and root "
                     "bounds - of x, y and of every slack variable that already exists - may not change by requesting, and no grid point excluded by the stated constraints may become assertable.",
                note="Two real variables; grid values {-1,0,1/2,1,2}; relies on exact rational evaluation of the relation at the point."),
    "C12": dict(engine="relmc", category="exploration", design_ref="DESIGN.md §4 C12",
                technique="bounded exhaustive enumeration of difference-expression requests and queries x states x model grid on idl_theory/rdl_theory",
                text="All requests between c*x+k / c*(x-y)+k forms (both variable orders, five relations, four network states) judged at "
                     "every grid point with both points pinned; bounds(lin), distance(lin,lin), equates(lin,lin) compared with the "
                     "variable-level distances for every expression pair in every state.",
                note="Forms rejected with std::invalid_argument are accepted and counted."),
    "C16": dict(engine="lexmc", category="exploration", design_ref="DESIGN.md §4 C16",
                technique="bounded exhaustive enumeration of token sequences (vs reference lexer) and expression trees x placements (vs AST observed through the parser's virtual factories)",
                text="All token sequences up to length 3 (4) over the complete token alphabet with several separators, all keyword/literal/"
                     "comment variants, and all expression trees up to depth 2 in 14 syntactic placements, in Release and Debug builds: "
                     "the lexer must produce the reference token stream and the parser must build exactly the tree that the documented "
                     "precedence and associativity prescribe; every such program must be accepted.",
                note="Evaluation exactness is decided at program level (E3) when that part is registered; parenthesised single identifiers are excluded (cast ambiguity)."),
    "C18": dict(engine="lexmc", category="fault_enumeration", design_ref="DESIGN.md §4 C18",
                technique="exhaustive enumeration of short byte strings and of all truncations of the shipped examples through lexer+parser, in Release and under ASan/UBSan, with per-case watchdog",
                text="Every byte string up to length 5 (6) over a 14-symbol alphabet covering each lexer branch, every prefix of every example "
                     "file, every byte string up to length 5 (6) over a 16-symbol JSON alphabet through json::from_json, and the valid C16 "
                     "programs, through the reader in Release and Debug+ASan+UBSan: only 'accepted' or 'std::exception within the time "
                     "limit' are allowed. Every valid program of the families of C01-C06, C16, C17 goes through read()+solve() under the "
                     "sanitizers, and the API histories of C07 (thorough: C08, C11, C12, C13) run in the sanitizer build.",
                note="Leaks are not judged (LeakSanitizer off); ASan cannot see heap errors in the network harnesses, which use the deterministic arena."),
    "C01": dict(engine="progrun", category="exploration", design_ref="DESIGN.md §4 C01",
                technique="bounded exhaustive enumeration of RIDDLE programs (all statement subsets of a pool) solved by the real solver in several build configurations; exact re-evaluation of every statement on the reported solution",
                text="Every subset of <=3 statements from a pool of relations, boolean combinations and disjunction statements over two reals and "
                     "a boolean is solved in 2 (thorough 8) configurations of heuristic x inconsistency checking x build type; each reported "
                     "solution is re-evaluated with exact rational+eps arithmetic and three-valued logic.",
                note="Rule bodies, timelines and objects are covered by the families of C03-C06/C17 as they are registered. Open known findings: constraints whose atoms no flaw decides (negated ==, ^)."),
    "C02": dict(engine="progrun", category="exploration", design_ref="DESIGN.md §4 C02",
                technique="bounded exhaustive program enumeration with an independent complete decision procedure (truth-assignment enumeration x Fourier-Motzkin) and verdict agreement within syntactic equivalence classes",
                text="For every constraint-network program the verdict 'unsolvable/inconsistent' is compared with a complete reference "
                     "procedure; for base programs all permutations, a renaming and tautology insertions must get the same verdict; in 2 (8) "
                     "configurations. No-good soundness at network level is decided by C07/C09/C10.",
                note="Two-variable linear fragment; timeouts are undecided."),
    "C04": dict(engine="progrun", category="exploration", design_ref="DESIGN.md §4 C04",
                technique="bounded exhaustive enumeration of timeline programs (all pairs / a fixed slice of triples of atom templates) solved by the real solver in several configurations; exact validation of the reported times and extracted timelines",
                text="Every pair (and a slice of triples) of state-variable atom templates - facts/goals, fixed or variable instance, free/constant/chained/zero-length/fully pinned times - on 1-2 instances, and `a0; { a1 } or { a2 }` choice-point programs: no two active atoms on one instance intersect, every active atom has a decided instance, extracted timeline segments hold at most one atom; 2 (8) build configurations.",
                note="[start,end) semantics; at most 3 atoms and 2 instances."),
    "C05": dict(engine="progrun", category="exploration", design_ref="DESIGN.md §4 C05",
                technique="bounded exhaustive enumeration of timeline programs (all pairs / a fixed slice of triples of atom templates) solved by the real solver in several configurations; exact validation of the reported times and extracted timelines",
                text="Every pair (and a slice of triples) of Use facts with amounts 1..3, durations 0/2/5, fixed/free/fully pinned start, fixed/variable resource on resources of capacity 1..3, and `u0; { u1 } or { u2 }` choice-point programs: at every pulse the active uses sum to at most the capacity and the extracted usage per segment equals that sum; 2 (8) configurations.",
                note="At most 3 uses and 2 resources; integer amounts."),
    "C06": dict(engine="progrun", category="exploration", design_ref="DESIGN.md §4 C06",
                technique="bounded exhaustive enumeration of timeline programs (all pairs / a fixed slice of triples of atom templates) solved by the real solver in several configurations; exact validation of the reported times and extracted timelines",
                text="Facts and goals on plain Interval/Impulse predicates and on StateVariable, ReusableResource, ConsumableResource and Agent predicates, with optional bounds, facts created inside the rule of a goal (second fact of a body, fact in the body of an Interval/Impulse goal), plus every atom of the sv/rr families: origin <= start <= end <= horizon, duration = end - start >= 0, origin <= at <= horizon; 2 (8) configurations.",
                note="Atoms created through rules are covered by the rule family of C03 when registered."),
    "C03": dict(engine="progrun", category="exploration", design_ref="DESIGN.md §4 C03",
                technique="bounded exhaustive enumeration of goal/fact/rule programs (unification, recursion, disjunction) solved by the real solver; validation of the causal structure read from the live solver",
                text="All combinations of rule-body shapes, facts and goals (plus recursive and mutually recursive predicates, 60 loop-temptation programs with two top-level goals and a costed switch of the base case, and the timeline "
                     "families) in 2 (8) configurations: every plan atom is active or unified with an active atom of the same predicate with "
                     "equal arguments, active goals have their rule's flaws in the plan, and the graph parent -> sub-atom (followed through disjunctions and choices inside rules) + unified atom -> target is acyclic.",
                note="Recursion depth <= 4, at most 2 facts and 2 top-level goals."),
    "C17": dict(engine="progrun", category="exploration", design_ref="DESIGN.md §4 C17",
                technique="bounded exhaustive enumeration of class hierarchies x instance sets x declared variables x constraints, solved by the real solver; domains read right after read() and choices after solve()",
                text="Six hierarchy shapes with every bounded instance-count vector and a variable of every type (instances before/after the "
                     "declaration), pairs of variables with (dis)equalities, numeric and object-typed fields set in four ways and constrained "
                     "through field access, enum unions: declared domains must be exactly the existing instances of the type and subtypes, "
                     "solutions must pick one value per variable that satisfies every constraint, fields must hold what was written.",
                note="At most 5 instances; enum values are compared by count and identity (strings are not exposed by name in the JSON)."),
    "C20": dict(engine="schedmc", category="model_checking", design_ref="DESIGN.md §4 C20",
                technique="stateless preemption-bounded exhaustive schedule exploration of the real thread_pool/pivot code under an interposed cooperative pthread scheduler; free-running ThreadSanitizer pass for data races",
                text="Every schedule within the preemption bound of the pool workers and the pivoting thread, for 7 scenarios x pool sizes 1-3, is "
                     "executed on the PARALLELIZE build: no deadlock, pool quiescent when pivot returns, and all observables (verdicts, tableau, "
                     "watch sets, values, bounds, learnt clause set) equal the sequential build. Unsynchronised accesses are looked for by "
                     "ThreadSanitizer on free runs of the same bodies.",
                note="Bounds per scenario/pool are listed in the evidence (levels_completed); race-freedom rests on a dynamic detector over sampled free runs, as a serialising scheduler cannot see races."),
    "C19": dict(engine="execmc", category="model_checking", design_ref="DESIGN.md §4 C19",
                technique="deviation-bounded exhaustive enumeration of environment answers (delays, failures) driving the real executor tick by tick, with monitors on the callback stream and on the adapted plan",
                text="Thirteen solved plans x three tick sizes (1, 1/2, 2 units); every execution with at most 3 (thorough 4, then 5 while the deadline allows) non-default environment answers (dont_start_yet / "
                     "dont_end_yet with delay 1 or 2 at every starting/ending callback, failure of a running atom before every tick) is run to "
                     "a fixed horizon on a fresh solver+executor; monitors check time advance, exactly-once start/end in order and not before "
                     "the planned time, no start/end in a delaying tick without a new notification, validity of the adapted plan (well-formed, no overlap, resource capacity) and immobility of started/ended atoms.",
                note="Small plans (<= 4 atoms); delays of 1-2 units; one request per callback."),
}

PENDING_REASON = "check not built yet in this round (planned, see DESIGN.md §4); not claimed until its quick and thorough tiers have run to completion on the unchanged tree"

ALL = ["C%02d" % i for i in range(1, 21)]


def main():
    checks = []
    for pid in ALL:
        if pid not in CHECKS:
            continue
        c = CHECKS[pid]
        checks.append({
            "property_id": pid,
            "quick_cmd": "./check %s quick" % pid,
            "thorough_cmd": "./check %s thorough" % pid,
            "evidence_file": "/verif/evidence/%s.json" % pid,
            "replay_cmd_template": "./check %s --replay {path}" % pid,
            "engine": c["engine"],
            "level_claimed": {"category": c["category"], "text": c["text"], "design_ref": c["design_ref"]},
            "level_note": c["note"],
            "technique": c["technique"],
        })
    na = [{"property_id": p, "reason": NA.get(p, PENDING_REASON)} for p in ALL if p not in CHECKS]
    m = {
        "version": 1,
        "setup_cmd": "./check --setup",
        "hooks": {
            "guard": "ORATIO_VERIF",
            "enable": "none needed: the machinery uses zero source hooks (harness TUs are compiled with -fno-access-control, theories are subclassed, libc/pthread entry points are interposed at link time); the guard name is reserved and unused",
            "baseline_off_cmd": "./lib/baseline.sh",
            "source_commits": [],
            "add_only": True,
        },
        "engines": ENGINES,
        "checks": checks,
        "not_applicable": na,
        "notes": "All checks rebuild /repo's working tree (cmake+ninja trees under /verif/build/<cfg>, incremental) and the harness "
                 "drivers (dependency-tracked) before running. Exit 0 = held on everything explored (KNOWN-FINDING lines possible), "
                 "1 = VIOLATION line(s), 2 = harness/build failure. Genuine defects found are repaired by 'fix:' commits in /repo and "
                 "listed as fixed in known_findings.json.",
    }
    json.dump(m, open(os.path.join(VERIF, "MANIFEST.json"), "w"), indent=1)
    print("MANIFEST.json: %d checks, %d not_applicable" % (len(checks), len(na)))


NA = {}

ENGINES = [
    {"name": "arith_enum", "path": "harness/arith_enum.cpp", "serves_properties": ["C15"],
     "kind_free_text": "exhaustive operand x operator-form enumeration against reference arithmetic, forked workers"},
    {"name": "reify", "path": "harness/reify.cpp", "serves_properties": ["C13"],
     "kind_free_text": "exhaustive root-level construction histories on sat_core, truth-table oracle"},
    {"name": "relmc", "path": "harness/relmc.cpp", "serves_properties": ["C11", "C12"],
     "kind_free_text": "exhaustive relation-request enumeration judged on a model grid with pinned variables (real lra/idl/rdl theories)"},
    {"name": "progrun", "path": "harness/progrun.cpp + lib/riddle.py + lib/fam_*.py", "serves_properties": ["C01", "C02", "C03", "C04", "C05", "C06", "C16", "C17"],
     "kind_free_text": "program-level exhaustive enumeration: Python generators with exact reference semantics, real solver run per program in forked children, validators on the official JSON solution"},
    {"name": "schedmc", "path": "harness/schedmc.cpp + engine/vsched.h + harness/seqref.cpp + harness/racefree.cpp", "serves_properties": ["C20"],
     "kind_free_text": "CHESS-style preemption-bounded schedule exploration over interposed pthread primitives; sequential-build reference; TSan free-running pass"},
    {"name": "execmc", "path": "harness/execmc.cpp", "serves_properties": ["C19"],
     "kind_free_text": "deviation-bounded exploration of environment answers over the real executor (recording listener as environment), monitors on callbacks and plan"},
    {"name": "lexmc", "path": "harness/lexmc.cpp", "serves_properties": ["C16", "C18"],
     "kind_free_text": "exhaustive text enumeration through the RIDDLE lexer/parser (reference lexer, AST capture via virtual factories, crash/hang isolation)"},
    {"name": "netmc", "path": "harness/netmc.cpp", "serves_properties": ["C07", "C08", "C09", "C10", "C14"],
     "kind_free_text": "stateless depth-bounded exhaustive exploration of API histories on the real constraint network (history replayed on a fresh network under a deterministic allocator), reference models TT/FM/FW"},
]

if __name__ == "__main__":
    main()
