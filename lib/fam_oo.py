"""C17: object-oriented RIDDLE semantics - domains, fields, inheritance, enums.

Hierarchies: single class; chains of 2 and 3; two supertypes; diamond; nested type; class with an
object-typed field; class with a numeric field set by constructor argument / init-list constant / field
initialiser; enum union.  Instances: 0-2 per class, created before (and, to test 'exist at that point',
after) the variable declaration.  One declared variable of each type, 0-2 constraints from
{v == i, v != i, v.n >= k, v.n == w.n, u == v, u != v, v.f == i}.
"""
import itertools
from fractions import Fraction as F
from riddle import Solution, env_of, value_of

AFTER_READ = True

HIER = {
    "single": (["class A { }"], {"A": []}),
    "chain2": (["class A { }", "class B : A { }"], {"A": [], "B": ["A"]}),
    "chain3": (["class A { }", "class B : A { }", "class C : B { }"], {"A": [], "B": ["A"], "C": ["B"]}),
    "two-supers": (["class A { }", "class B { }", "class C : A, B { }"], {"A": [], "B": [], "C": ["A", "B"]}),
    "diamond": (["class A { }", "class B : A { }", "class C : A { }", "class D : B, C { }"], {"A": [], "B": ["A"], "C": ["A"], "D": ["B", "C"]}),
    "nested": (["class A { class I { } }"], {"A": [], "A.I": []}),
}


def ancestors(h, t):
    out, todo = set(), [t]
    while todo:
        x = todo.pop()
        if x in out:
            continue
        out.add(x)
        todo += h[x]
    return out


def generate(thorough):
    progs = []
    k = 0

    def add(text, meta):
        nonlocal k
        k += 1
        progs.append(("oo%d" % k, text, meta))
    # ---- domains over hierarchies ----
    for hname, (decls, h) in HIER.items():
        types = list(h)
        counts = (0, 1, 2) if thorough or len(types) <= 3 else (0, 1)
        for inst in itertools.product(counts, repeat=len(types)):
            if sum(inst) == 0 or sum(inst) > (5 if thorough else 4):
                continue
            for vt in types:
                for late in (False, True):
                    # instances created before the variable; if late, one more instance of the first instantiated type afterwards
                    lines = list(decls)
                    names = []  # (name, type)
                    for t, n in zip(types, inst):
                        for i in range(n):
                            nm = "%s%d" % (t.replace(".", "_").lower(), i)
                            lines.append("%s %s = new %s();" % (t, nm, t))
                            names.append((nm, t))
                    expected = [nm for nm, t in names if vt in ancestors(h, t)]
                    lines.append("%s v;" % vt)
                    late_name = None
                    if late:
                        lt = [t for t, n in zip(types, inst) if n][0]
                        late_name = "late0"
                        lines.append("%s %s = new %s();" % (lt, late_name, lt))
                        names.append((late_name, lt))
                    cons_opts = [[]]
                    if expected:
                        cons_opts.append(["v != %s;" % expected[0]])
                        cons_opts.append(["v == %s;" % expected[-1]])
                        # the instance on the left-hand side (its class may be a strict subtype of the variable's type)
                        cons_opts.append(["%s != v;" % expected[-1]])
                        cons_opts.append(["%s == v;" % expected[0]])
                        if len(expected) > 1:
                            cons_opts.append(["%s == v;" % expected[-1]])
                    for cons in cons_opts:
                        add(" ".join(lines + cons), {"kind": "domain", "hier": hname, "vtype": vt, "expected": expected, "names": names, "cons": cons, "late": late_name})
    # ---- two variables, equality / disequality ----
    for n in (1, 2, 3):
        base = ["class A { }"] + ["A a%d = new A();" % i for i in range(n)] + ["A u;", "A v;"]
        for cons in ([], ["u == v;"], ["u != v;"], ["u == v;", "u != a0;"], ["u != v;", "v != a0;"], ["u == a0;", "v == a0;", "u != v;"], ["u != v;", "u != a0;", "v != a0;"]):
            add(" ".join(base + cons), {"kind": "pair", "n": n, "cons": cons})
    # ---- numeric fields: constructor argument, init-list constant, field initialiser ----
    cls = {
        "ctor-arg": "class A { real n; A(real n) : n(n) { } }",
        "init-const": "class A { real n; A(real k) : n(7.0) { } }",
        "field-init": "class A { real n = 7.0; A(real k) { } }",
        "ctor-body": "class A { real n; A(real k) { n == k + 1.0; } }",
        # a field with a default initialiser that the constructor's initialiser list overrides (directly / in a supertype)
        "default-and-init-list": "class A { real n = 7.0; A(real k) : n(k) { } }",
        "default-and-super-init-list": "class B { real n = 7.0; B(real k) : n(k) { } } class A : B { A(real k) : B(k) { } }",
        # several supertypes, the initialiser list invokes only a later one explicitly
        "second-supertype-init-list": "class S1 { } class S2 { real n; S2() : n(9.0) { } S2(real k) : n(k) { } } class A : S1, S2 { A(real k) : S2(k) { } }",
        "third-supertype-init-list": "class S1 { } class S0 { real m; S0() : m(3.0) { } } class S2 { real n; S2() : n(9.0) { } S2(real k) : n(k) { } } class A : S1, S0, S2 { A(real k) : S2(k) { } }",
    }
    for cname, cdecl in cls.items():
        for vals in ((1,), (1, 5), (1, 5, 9)):
            base = [cdecl] + ["A a%d = new A(%d.0);" % (i, v) for i, v in enumerate(vals)] + ["A v;"]
            fv = {"ctor-arg": lambda x: x, "init-const": lambda x: 7, "field-init": lambda x: 7, "ctor-body": lambda x: x + 1,
                  "default-and-init-list": lambda x: x, "default-and-super-init-list": lambda x: x,
                  "second-supertype-init-list": lambda x: x, "third-supertype-init-list": lambda x: x}[cname]
            field = {"a%d" % i: F(fv(v)) for i, v in enumerate(vals)}
            for cons, ok in (([], lambda n: True), (["v.n >= 4.0;"], lambda n: n >= 4), (["v.n <= 4.0;"], lambda n: n <= 4), (["v.n == 5.0;"], lambda n: n == 5),
                             (["v.n >= 2.0;", "v.n <= 8.0;"], lambda n: 2 <= n <= 8)):
                add(" ".join(base + cons), {"kind": "field", "cls": cname, "field": field, "cons": cons, "ok": ok})
    # ---- object-typed field ----
    base = ["class A { }", "class F { A a; F(A a) : a(a) { } }", "A a0 = new A();", "A a1 = new A();", "F f0 = new F(a0);", "F f1 = new F(a1);", "F v;"]
    for cons in ([], ["v.a == a0;"], ["v.a != a0;"], ["v.a == a1;", "v != f0;"]):
        add(" ".join(base + cons), {"kind": "objfield", "cons": cons})
    # ---- constructor bodies and predicates declared in classes (own, inherited one and two levels up) ----
    add("class A { real v; A(real k) : v(k) { v >= 5.0; } } A o = new A(1.0);", {"kind": "ctor", "shape": "body-constraint", "sat": False})
    add("class A { real v; A(real k) : v(k) { v >= 5.0; } } A o = new A(7.0);", {"kind": "ctor", "shape": "body-constraint", "sat": True})
    add("class A { A() { 1.0 <= 0.0; } } A o = new A();", {"kind": "ctor", "shape": "body-constant-false", "sat": False})
    add("class A { real v; A() { v == 1.0; v == 2.0; } } A o = new A();", {"kind": "ctor", "shape": "body-contradiction", "sat": False})
    pa = "class A { predicate P(real x) { x >= 8.0; } }"
    for depth in (1, 2, 3):
        # the class of the instance is `depth - 1` levels below the class that declares P
        for kind in ("goal", "fact"):
            low = 8 if kind == "goal" else None
            chain_plain = {1: ("", "A"), 2: (" class B : A { }", "B"), 3: (" class B : A { } class C : B { }", "C")}[depth]
            add("%s%s real a; %s o = new %s(); %s g = new o.P(x: a);" % (pa, chain_plain[0], chain_plain[1], chain_plain[1], kind),
                {"kind": "ctor", "shape": "class-predicate:top-level:%s:depth%d" % (kind, depth), "sat": True, "lower": low})
            ctor = {1: ("class A { predicate P(real x) { x >= 8.0; } A(real k) { %s g = new this.P(x: k); } }" % kind, "A"),
                    2: (pa + " class B : A { B(real k) { %s g = new this.P(x: k); } }" % kind, "B"),
                    3: (pa + " class B : A { } class C : B { C(real k) { %s g = new this.P(x: k); } }" % kind, "C")}[depth]
            add("%s real a; %s o = new %s(a);" % (ctor[0], ctor[1], ctor[1]),
                {"kind": "ctor", "shape": "class-predicate:constructor:%s:depth%d" % (kind, depth), "sat": True, "lower": low})
            rule = {1: ("class A { predicate P(real x) { x >= 8.0; } predicate Q(real y) { %s g = new P(x: y); } }" % kind, "A"),
                    2: (pa + " class B : A { predicate Q(real y) { %s g = new P(x: y); } }" % kind, "B"),
                    3: (pa + " class B : A { } class C : B { predicate Q(real y) { %s g = new P(x: y); } }" % kind, "C")}[depth]
            add("%s real a; %s o = new %s(); goal h = new o.Q(y: a);" % (rule[0], rule[1], rule[1]),
                {"kind": "ctor", "shape": "class-predicate:rule:%s:depth%d" % (kind, depth), "sat": True, "lower": low})
    add("class A { predicate P(real x) { x >= 8.0; } A(real k) { goal g = new this.P(x: k); k <= 3.0; } } real a; A o = new A(a);",
        {"kind": "ctor", "shape": "class-predicate:constructor:goal-contradicts-body", "sat": False})
    # ---- variables declared inside a disjunct (their items die with the disjunct's environment; their flaws do not) ----
    add("class A { } A a0 = new A(); A a1 = new A(); real a; { A v; a >= 8.0; } or { A w; a <= 0.0; a >= 8.0; }",
        {"kind": "ctor", "shape": "object-variable-declared-in-disjunct", "sat": True, "lower": 8})
    add("class A { } A a0 = new A(); A a1 = new A(); real a; { A v; v == a1; a >= 8.0; } or { A v; v == a0; a <= 0.0; a >= 8.0; }",
        {"kind": "ctor", "shape": "object-variable-declared-in-disjunct:used", "sat": True, "lower": 8})
    add("real a; { bool c; a >= 8.0; } or { bool d; a <= 0.0; a >= 8.0; }",
        {"kind": "ctor", "shape": "boolean-declared-in-disjunct", "sat": True, "lower": 8})
    # ---- two object-typed fields read through ONE variable: in a candidate whose two fields hold the same object both
    #      derived values are controlled by the same literal ----
    tf = "class P { } class T { P home; P dest; T(P h, P d) : home(h), dest(d) { } } P p = new P(); P q = new P(); P r = new P(); T a = new T(p, p); T b = new T(q, r); T t; "
    for cons, want in (("t.home != t.dest;", ["b"]), ("t.home == t.dest;", ["a"]), ("t.home != t.dest; t == a;", []), ("t.home == t.dest; t == b;", []),
                       ("t.home != t.dest; t == b;", ["b"]), ("t.home == p;", ["a"]), ("t.dest != p;", ["b"]), ("t.home != q;", ["a"])):
        add(tf + cons, {"kind": "twofields", "cons": cons, "want": want})
    # ---- enums ----
    for decl, size in (('enum E {"a", "b"};', 2), ('enum E {"a", "b", "c"};', 3), ('enum G {"c"}; enum E {"a", "b"} | G;', 3), ('enum G {"c", "d"}; enum H {"e"}; enum E {"a"} | G | H;', 4),
                       ('enum B {"r", "g"}; enum M {"b"} | B; enum E {"y", "k"} | M;', 5), ('enum B {"r"}; enum M {"b"} | B; enum T {"t"} | M; enum E {"y"} | T;', 4)):
        for cons in ([], ["x != y;"], ["x == y;"], ["x != y;", "y != z;", "x != z;"]):
            add(decl + " E x; E y; E z; " + " ".join(cons), {"kind": "enum", "size": size, "cons": cons})
    return progs


def domain_of(entry_value):
    if entry_value is None:
        return None
    if entry_value[0] in ("obj", "str"):
        return [entry_value[1]]
    return list(entry_value[1])


def judge(prog, res):
    pid, text, m = prog
    v = res.get("verdict")
    kind = m["kind"]
    tag = kind + (":" + m["hier"] if kind == "domain" else "") + (":" + m["cls"] if kind == "field" else "")
    if v in ("abort", "exception", "bad-json", "missing"):
        return ("C18:valid-program:%s:oo:%s" % (v, tag), "%s: %s" % (v, res.get("what", "")[:600]))
    if v == "timeout":
        return ("C18:valid-program:no-answer-within-limit:oo:%s" % tag, res.get("what", ""))
    if v == "reader-error":
        return ("C16:valid-program-rejected:oo:" + tag, "the reader rejected the program: " + res.get("what", ""))
    out = []
    if kind == "domain":
        exp = m["expected"]
        if not exp:
            if v != "inconsistent":
                out.append(("C17:variable-of-type-without-instances:" + tag, "no instance of %s exists at the declaration, yet the program is reported %s" % (m["vtype"], v)))
            return out or None
        cons = m["cons"]
        def other(c):  # the instance named in `v OP inst;` or `inst OP v;`
            a, _, b = c.rstrip(";").split()
            return b if a == "v" else a
        excluded = [other(c) for c in cons if "!=" in c]
        forced = [other(c) for c in cons if "==" in c]
        feasible = [x for x in exp if x not in excluded and (not forced or x in forced)]
        if v in ("inconsistent", "unsolvable"):
            if feasible:
                out.append(("C17:solvable-object-problem-rejected:" + tag, "reported %s although v can be %s" % (v, feasible)))
            return out or None
        # domain right after read(): exactly the instances of the type and its subtypes that existed at the declaration
        ar = res.get("after_read") or {}
        env = env_of(ar.get("exprs", []))
        ids = {nm: env[nm][1] for nm, _ in m["names"] if nm in env and env[nm][0] == "obj"}
        dom = domain_of(env.get("v"))
        want = sorted(ids[x] for x in exp)
        if cons == [] and dom is not None and sorted(dom) != want:
            inv = {i: n for n, i in ids.items()}
            got_names = sorted(inv.get(i, "?") for i in dom)
            extra = [x for x in got_names if x not in exp]
            missing = [x for x in exp if x not in got_names]
            why = "contains-instance-created-later" if m["late"] in extra else "extra-values" if extra else "missing-values"
            out.append(("C17:declared-domain-wrong:%s:%s" % (why, tag), "%s v ranges over %s after read(); instances of %s and subtypes existing at that point: %s" % (m["vtype"], got_names, m["vtype"], exp)))
        S = Solution(res)
        val = S.env.get("v")
        d2 = domain_of(val)
        sid = {nm: S.env[nm][1] for nm, _ in m["names"] if nm in S.env}
        if d2 is None or len(d2) != 1:
            out.append(("C17:object-variable-without-single-value:" + tag, "v has %s values in the solution" % (len(d2) if d2 else 0)))
        else:
            chosen = [nm for nm, i in sid.items() if i == d2[0]]
            if not chosen or chosen[0] not in feasible:
                out.append(("C17:chosen-value-violates-constraints-or-domain:" + tag, "v = %s, allowed: %s (constraints %s)" % (chosen, feasible, cons)))
        return out or None
    if kind == "twofields":
        tag = "twofields"
        if v in ("inconsistent", "unsolvable"):
            if m["want"]:
                out.append(("C17:solvable-object-problem-rejected:" + tag, "reported %s although t can be %s (%s)" % (v, m["want"], m["cons"])))
            return out or None
        S = Solution(res)
        dv = domain_of(S.env.get("t"))
        names = {S.env[nm][1]: nm for nm in ("a", "b") if nm in S.env}
        got = sorted(names.get(i, "?") for i in (dv or []))
        if not dv or len(dv) != 1:
            out.append(("C17:object-variable-without-single-value:" + tag, "t has %s values" % (dv and len(dv))))
        elif got[0] not in m["want"]:
            out.append(("C17:field-access-through-variable-wrong:" + tag, "`%s` is reported solved with t = %s; the candidates that satisfy it are %s" % (m["cons"], got[0], m["want"])))
        return out or None
    if kind == "ctor":
        tag = "ctor:" + m["shape"]
        if v in ("inconsistent", "unsolvable"):
            if m["sat"]:
                out.append(("C17:solvable-object-problem-rejected:" + tag, "reported %s although the program has a solution" % v))
            return out or None
        if not m["sat"]:
            out.append(("C17:unsatisfiable-constructor-body-accepted:" + tag, "reported solved although the constraints executed by the constructor cannot hold"))
            return out
        S = Solution(res)
        if m.get("lower") is not None:
            a = S.env.get("a")
            if not (isinstance(a, tuple) and a >= (F(m["lower"]), F(0))):
                out.append(("C17:rule-of-class-predicate-not-applied:" + tag, "a = %s, but the goal's rule requires a >= %d" % (a and a[0], m["lower"])))
        return out or None
    if v in ("inconsistent", "unsolvable"):
        sat = True
        if kind == "pair":
            n, cons = m["n"], m["cons"]
            sat = any(all(_pair_ok(c, u, w) for c in cons) for u in range(n) for w in range(n))
        elif kind == "field":
            sat = any(m["ok"](x) for x in m["field"].values())
        elif kind == "enum":
            sat = _enum_sat(m)
        if sat:
            out.append(("C17:solvable-object-problem-rejected:" + tag, "reported %s although an assignment of instances satisfies every constraint" % v))
        return out or None
    S = Solution(res)
    if kind == "pair":
        ids = [S.env["a%d" % i][1] for i in range(m["n"])]
        du, dv = domain_of(S.env.get("u")), domain_of(S.env.get("v"))
        if not du or not dv or len(du) != 1 or len(dv) != 1:
            out.append(("C17:object-variable-without-single-value:" + tag, "u has %s, v has %s values" % (du and len(du), dv and len(dv))))
        else:
            u, w = ids.index(du[0]), ids.index(dv[0])
            for c in m["cons"]:
                if not _pair_ok(c, u, w):
                    out.append(("C17:object-constraint-violated:%s:%s" % (tag, "disequality" if "!=" in c else "equality"), "`%s` does not hold for u = a%d, v = a%d" % (c, u, w)))
    elif kind == "field":
        dv = domain_of(S.env.get("v"))
        names = {S.env[nm][1]: nm for nm in m["field"]}
        for nm, expv in m["field"].items():
            got = S.item_fields(S.env[nm][1]).get("n")
            if got != (expv, F(0)):
                out.append(("C17:field-not-set-as-written:" + tag, "%s.n is %s, the program sets it to %s" % (nm, got and got[0], expv)))
        if not dv or len(dv) != 1:
            out.append(("C17:object-variable-without-single-value:" + tag, "v has %s values" % (dv and len(dv))))
        elif not m["ok"](m["field"][names[dv[0]]]):
            out.append(("C17:field-constraint-violated-by-chosen-instance:" + tag, "v = %s whose n = %s violates %s" % (names[dv[0]], m["field"][names[dv[0]]], m["cons"])))
    elif kind == "objfield":
        dv = domain_of(S.env.get("v"))
        f0, f1, a0, a1 = (S.env[x][1] for x in ("f0", "f1", "a0", "a1"))
        if not dv or len(dv) != 1:
            out.append(("C17:object-variable-without-single-value:" + tag, "v has %s values" % (dv and len(dv))))
        else:
            va = a0 if dv[0] == f0 else a1
            for c in m["cons"]:
                ok = {"v.a == a0;": va == a0, "v.a != a0;": va != a0, "v.a == a1;": va == a1, "v != f0;": dv[0] != f0}[c]
                if not ok:
                    out.append(("C17:field-access-through-variable-wrong:" + tag, "`%s` does not hold: v is %s whose field a is %s" % (c, "f0" if dv[0] == f0 else "f1", "a0" if va == a0 else "a1")))
            fa = S.item_fields(dv[0]).get("a")
            if fa is None or fa[0] != "obj" or fa[1] != va:
                out.append(("C17:field-not-set-as-written:" + tag, "field a of the chosen F is not the constructor argument"))
    elif kind == "enum":
        ar = res.get("after_read") or {}
        env0 = env_of(ar.get("exprs", []))
        d0 = domain_of(env0.get("x"))
        if d0 is not None and len(d0) != m["size"]:
            out.append(("C17:enum-domain-wrong:" + tag, "E x ranges over %d values after read(), the declaration (with included enums) has %d" % (len(d0), m["size"])))
        vals = {}
        for nm in ("x", "y", "z"):
            d = domain_of(S.env.get(nm))
            if not d or len(d) != 1:
                out.append(("C17:object-variable-without-single-value:" + tag, "%s has %s values" % (nm, d and len(d))))
                return out
            vals[nm] = d[0]
        for c in m["cons"]:
            a, op, b = c.rstrip(";").split()
            if (vals[a] == vals[b]) != (op == "=="):
                out.append(("C17:object-constraint-violated:%s:%s" % (tag, "disequality" if op == "!=" else "equality"), "`%s` does not hold in the solution" % c))
    return out or None


def _pair_ok(c, u, w):
    a, op, b = c.rstrip(";").split()
    val = {"u": u, "v": w}
    x = val[a] if a in val else int(a[1:])
    y = val[b] if b in val else int(b[1:])
    return (x == y) == (op == "==")


def _enum_sat(m):
    n = m["size"]
    for x, y, z in itertools.product(range(n), repeat=3):
        v = {"x": x, "y": y, "z": z}
        if all((v[c.split()[0]] == v[c.split()[2].rstrip(";")]) == (c.split()[1] == "==") for c in m["cons"]):
            return True
    return False
