"""Timeline families: state variables (C04), reusable resources (C05), temporal well-formedness (C06),
planted solutions (C02b) and the justification of atoms on timelines (C03).

sv:    class S : StateVariable { predicate P() { duration >= 1.0; } predicate Z() {} }  with 1-2 instances and every
       pair / triple of atom templates (fact or goal, predicate, tau fixed or variable, start/end free, constant or
       equal to the previous atom's end, zero-length), with and without a horizon bound.
rr:    ReusableResource instances with capacity 1..3 and every pair / triple of Use facts with amount 1..3,
       duration 0/2/5, fixed or free start, resource fixed or variable, with and without a horizon bound.
basic: one fact or goal on a plain predicate extending Interval / Impulse and on predicates of StateVariable,
       ReusableResource, ConsumableResource and Agent types, with one optional bound.
"""
import itertools
from fractions import Fraction as F
from riddle import Solution, fm_feasible_n

ZERO = (F(0), F(0))


def vstr(v):
    if isinstance(v, tuple) and len(v) == 2 and isinstance(v[0], F):
        return str(v[0]) + ("" if not v[1] else ("+" if v[1] > 0 else "") + "%s eps" % v[1])
    return str(v)


# ---------------------------------------------------------------------------------------------------------------
# generators
# ---------------------------------------------------------------------------------------------------------------
def sv_templates(thorough):
    T = []
    for kind in ("fact", "goal"):
        for pred in ("P", "Z"):
            for tau in ("s0", "v"):
                for timing in ("free", "at0", "at5", "0to5", "zero@5", "chain", "5to10", "pin0to5", "pin3to8", "0toGt5"):
                    if not thorough and kind == "goal" and timing in ("5to10", "zero@5") and pred == "Z":
                        continue
                    if not thorough and timing == "pin3to8" and (tau == "v" or pred == "Z"):
                        continue
                    if not thorough and timing == "0toGt5" and tau == "v":
                        continue
                    if not thorough and tau == "v" and timing in ("free", "at5"):
                        continue
                    T.append((kind, pred, tau, timing))
    return T


def sv_atom_text(i, t, prev):
    kind, pred, tau, timing = t
    name = "a%d" % i
    args = []
    post = []
    if timing == "at0":
        args.append("start: 0.0")
    elif timing == "at5":
        args.append("start: 5.0")
    elif timing == "0to5":
        args += ["start: 0.0", "end: 5.0"]
    elif timing == "5to10":
        args += ["start: 5.0", "end: 10.0"]
    elif timing == "zero@5":
        args += ["start: 5.0", "end: 5.0"]
    elif timing == "pin0to5":  # every temporal parameter is a constant: nothing moves when the atom is activated
        args += ["start: 0.0", "end: 5.0", "duration: 5.0"]
    elif timing == "pin3to8":
        args += ["start: 3.0", "end: 8.0", "duration: 5.0"]
    elif timing == "0toGt5":  # a strict bound: the end is 5 + eps or later
        args.append("start: 0.0")
        post.append("%s.end > 5.0;" % name)
    elif timing == "chain" and prev is not None:
        post.append("%s.start == %s.end;" % (name, prev))
    s = "%s %s = new %s.%s(%s);" % (kind, name, tau if tau != "v" else "v%d" % i, pred, ", ".join(args))
    return s + (" " + " ".join(post) if post else "")


def gen_sv(thorough):
    progs = []
    T = sv_templates(thorough)
    k = 0
    head1 = "class S : StateVariable { predicate P() { duration >= 1.0; } predicate Z() { } } S s0 = new S(); "
    sizes = (2, 3) if thorough else (2,)
    triple_stride = 1
    for ninst in (1, 2):
        for hor in (False, True):
            for size in sizes:
                for ci, combo in enumerate(itertools.product(range(len(T)), repeat=size)):
                    if size == 3 and ci % 97 != (ninst * 2 + hor) % 97:
                        continue  # triples: a fixed 1/97 slice per (instances, horizon) setting
                    ts = [T[i] for i in combo]
                    uses_v = any(t[2] == "v" for t in ts)
                    if ninst == 1 and uses_v:
                        continue
                    text = head1 + ("S s1 = new S(); " if ninst == 2 else "") + "".join("S v%d; " % i for i, t in enumerate(ts) if t[2] == "v")
                    if hor:
                        text += "horizon <= 12.0; "
                    prev = None
                    for i, t in enumerate(ts):
                        text += sv_atom_text(i, t, prev) + " "
                        prev = "a%d" % i
                    k += 1
                    progs.append(("sv%d" % k, text.strip(), {"fam": "sv", "templates": ts, "ninst": ninst, "horizon": 12 if hor else None}))
    if not thorough:
        # a slice of triples in the quick tier too
        for ci, combo in enumerate(itertools.product(range(len(T)), repeat=3)):
            if ci % 211 != 5:
                continue
            ts = [T[i] for i in combo]
            uses_v = any(t[2] == "v" for t in ts)
            text = head1 + "S s1 = new S(); " + "".join("S v%d; " % i for i, t in enumerate(ts) if t[2] == "v") + "horizon <= 12.0; "
            prev = None
            for i, t in enumerate(ts):
                text += sv_atom_text(i, t, prev) + " "
                prev = "a%d" % i
            k += 1
            progs.append(("sv%d" % k, text.strip(), {"fam": "sv", "templates": ts, "ninst": 2, "horizon": 12}))
    # state-variable classes that derive from StateVariable through an intermediate class: Z is declared one level below
    # StateVariable, P two levels below, the instance belongs to the deepest class
    head_deep = "class M : StateVariable { predicate Z() { } } class S : M { predicate P() { duration >= 1.0; } } S s0 = new S(); "
    TDEEP = [(kind, pred, "s0", timing) for kind in ("fact", "goal") for pred in ("P", "Z") for timing in ("free", "at0", "0to5", "pin0to5", "chain")]
    for combo in itertools.product(range(len(TDEEP)), repeat=2):
        ts = [TDEEP[i] for i in combo]
        text = head_deep
        prev = None
        for i, t in enumerate(ts):
            text += sv_atom_text(i, t, prev) + " "
            prev = "a%d" % i
        k += 1
        progs.append(("sv%d" % k, text.strip(), {"fam": "sv", "templates": ts, "ninst": 1, "horizon": None, "deep": True}))
    # choice points: a0, then `{ a1 } or { a2 }`: the atom of the chosen disjunct becomes active by a search decision,
    # after the instance has already been swept once
    TD = [(kind, "P", "s0", timing) for kind in ("fact", "goal") for timing in ("free", "at0", "0to5", "pin0to5", "pin3to8")]
    for combo in itertools.product(range(len(TD)), repeat=3):
        ts = [TD[i] for i in combo]
        text = head1 + sv_atom_text(0, ts[0], None) + " { " + sv_atom_text(1, ts[1], "a0") + " } or { " + sv_atom_text(2, ts[2], "a0") + " }"
        k += 1
        progs.append(("sv%d" % k, text, {"fam": "sv", "templates": ts, "ninst": 1, "horizon": None, "alts": [[0, 1], [0, 2]]}))
    return progs


def gen_rr(thorough):
    progs = []
    k = 0
    U = []
    for amount in (1, 2, 3):
        for dur in (0, 2, 5):
            for start in ("free", "0", "2"):
                for res in ("r0", "w"):
                    if not thorough and res == "w" and start == "2":
                        continue
                    U.append((amount, dur, start, res))
    sizes = (1, 2, 3)  # a single use can already exceed the capacity of its instance
    for cap in (1, 2, 3):
        for hor in (None, 6):
            for size in sizes:
                for ci, combo in enumerate(itertools.product(range(len(U)), repeat=size)):
                    if size == 2 and not thorough and ci % 3 != cap % 3:
                        continue
                    if size == 3 and ci % (53 if thorough else 499) != cap:
                        continue
                    us = [U[i] for i in combo]
                    uses_w = any(u[3] == "w" for u in us)
                    text = "ReusableResource r0 = new ReusableResource(%d.0); " % cap
                    if uses_w:
                        text += "ReusableResource r1 = new ReusableResource(%d.0); " % cap + "".join("ReusableResource w%d; " % i for i, u in enumerate(us) if u[3] == "w")
                    if hor:
                        text += "horizon <= %d.0; " % hor
                    for i, (amount, dur, start, res) in enumerate(us):
                        args = ["amount: %d.0" % amount, "duration: %d.0" % dur]
                        if start != "free":
                            args.append("start: %s.0" % start)
                        text += "fact u%d = new %s.Use(%s); " % (i, res if res != "w" else "w%d" % i, ", ".join(args))
                    k += 1
                    progs.append(("rr%d" % k, text.strip(), {"fam": "rr", "uses": us, "cap": cap, "horizon": hor, "two": uses_w}))
    # fully pinned uses (start, end and duration constant) and choice points: u0, then `{ u1 } or { u2 }`
    UD = [(amount, 2, start, "r0") for amount in (1, 2, 3) for start in ("free", "p0", "p1")]

    def use_text(i, u):
        amount, dur, start, res = u
        args = ["amount: %d.0" % amount, "duration: %d.0" % dur]
        if start.startswith("p"):
            args += ["start: %s.0" % start[1:], "end: %d.0" % (int(start[1:]) + dur)]
        elif start != "free":
            args.append("start: %s.0" % start)
        return "fact u%d = new %s.Use(%s);" % (i, res, ", ".join(args))
    # resource classes derived from ReusableResource through an intermediate class, with a predicate extending Use
    # declared in the deepest class
    for cap in (2, 3):
        for combo in itertools.product(range(len(UD)), repeat=2):
            us = [UD[i] for i in combo]
            text = ("class R : ReusableResource { R(real c) : ReusableResource(c) {} } class R2 : R { R2(real c) : R(c) {} predicate Drill() : Use { } } "
                    "R2 r0 = new R2(%d.0); " % cap + " ".join(use_text(i, u).replace(".Use(", ".Drill(") for i, u in enumerate(us)))
            k += 1
            progs.append(("rr%d" % k, text, {"fam": "rr", "uses": us, "cap": cap, "horizon": None, "two": False, "deep": True}))
    for cap in (2, 3):
        for combo in itertools.product(range(len(UD)), repeat=2):
            us = [UD[i] for i in combo]
            text = "ReusableResource r0 = new ReusableResource(%d.0); " % cap + " ".join(use_text(i, u) for i, u in enumerate(us))
            k += 1
            progs.append(("rr%d" % k, text, {"fam": "rr", "uses": us, "cap": cap, "horizon": None, "two": False}))
        for combo in itertools.product(range(len(UD)), repeat=3):
            us = [UD[i] for i in combo]
            text = "ReusableResource r0 = new ReusableResource(%d.0); " % cap + use_text(0, us[0]) + " { " + use_text(1, us[1]) + " } or { " + use_text(2, us[2]) + " }"
            k += 1
            progs.append(("rr%d" % k, text, {"fam": "rr", "uses": us, "cap": cap, "horizon": None, "two": False, "alts": [[0, 1], [0, 2]]}))
    return progs


def gen_basic(thorough):
    progs = []
    k = 0
    decls = {
        "plain-interval": ("predicate I() : Interval { }", "I", ""),
        "plain-impulse": ("predicate M() : Impulse { }", "M", ""),
        "sv": ("class S : StateVariable { predicate P() { } } S s = new S();", "s.P", "sv"),
        "rr": ("ReusableResource r = new ReusableResource(5.0);", "r.Use", "rr"),
        "cr-consume": ("class B : ConsumableResource { B(real i, real c) : ConsumableResource(i, c) {} predicate C() : Consume { } } B b = new B(5.0, 10.0);", "b.C", "cr"),
        "cr-produce": ("class B : ConsumableResource { B(real i, real c) : ConsumableResource(i, c) {} predicate D() : Produce { } } B b = new B(5.0, 10.0);", "b.D", "cr"),
        "class-interval": ("class R { predicate W() : Interval { } } R ro = new R();", "ro.W", ""),
        "class-impulse": ("class R { predicate N() : Impulse { } } R ro = new R();", "ro.N", ""),
        "subclass-interval": ("class B { predicate W() : Interval { } } class R : B { } R ro = new R();", "ro.W", ""),
        "agent-interval": ("class A : Agent { predicate W() : Interval { } } A ag = new A();", "ag.W", "agent"),
        "agent-impulse": ("class A : Agent { predicate N() : Impulse { } } A ag = new A();", "ag.N", "agent"),
    }
    bounds = ["", "horizon <= 10.0;", "horizon <= 10.0; origin >= 2.0;", "f.start >= 20.0;", "f.end <= 3.0;", "f.duration >= 4.0;", "f.at >= 7.0;", "f.at <= 1.0;",
              "horizon <= 10.0; f.end >= 10.0;", "horizon <= 10.0; f.start <= 0.0;"]
    for dn, (decl, pred, st) in decls.items():
        impulse = "impulse" in dn
        for kind in ("fact", "goal"):
            for b in bounds:
                if impulse and any(w in b for w in ("start", "end", "duration")):
                    continue
                if not impulse and ".at" in b:
                    continue
                args = ""
                if st == "rr" or st == "cr":
                    args = "amount: 1.0"
                text = "%s %s f = new %s(%s); %s" % (decl, kind, pred, args, b)
                k += 1
                progs.append(("tb%d" % k, text.strip(), {"fam": "basic", "decl": dn, "kind": kind, "impulse": impulse, "bound": b}))
    # facts created inside the rule of a goal (re-entrant rule application): a second fact of the same predicate in one
    # body, and a fact in the body of a goal that is itself an Interval / Impulse
    for dn, (decl, pred, st) in decls.items():
        impulse = "impulse" in dn
        args = "amount: 1.0" if st in ("rr", "cr") else ""
        for shape in ("second-fact", "in-interval-goal", "in-impulse-goal"):
            for b in (["", "f.at >= 7.0;"] if impulse else ["", "f.start >= 3.0;", "f.duration >= 4.0;"]):
                if shape == "second-fact":
                    head, body = "predicate G()", "fact e = new %s(%s); fact f = new %s(%s); %s" % (pred, args, pred, args, b)
                else:
                    head = "predicate G() : %s" % ("Interval" if shape == "in-interval-goal" else "Impulse")
                    body = "fact f = new %s(%s); %s" % (pred, args, b)
                text = "%s %s { %s } goal g = new G();" % (decl, head, body)
                k += 1
                progs.append(("tb%d" % k, text.strip(), {"fam": "basic", "decl": dn + ":" + shape, "kind": "fact", "impulse": impulse, "bound": b}))
    return progs


def generate(thorough):
    return gen_sv(thorough) + gen_rr(thorough) + gen_basic(thorough)


# ---------------------------------------------------------------------------------------------------------------
# validators
# ---------------------------------------------------------------------------------------------------------------
def tau_of(a):
    t = a["pars"].get("tau")
    if t is None:
        return None
    if t[0] == "obj":
        return [t[1]]
    return list(t[1])


def is_interval(a):
    return all(k in a["pars"] for k in ("start", "end", "duration"))


def is_impulse(a):
    return "at" in a["pars"] and "start" not in a["pars"]


def check_c06(S, tag):
    out = []
    origin, horizon = S.env.get("origin"), S.env.get("horizon")
    for a in S.atoms.values():
        if a["state"] != "Active":
            continue
        p = a["pars"]
        if is_interval(a):
            s, e, d = p["start"], p["end"], p["duration"]
            bad = None
            if not (origin <= s):
                bad = "start %s before origin %s" % (vstr(s), vstr(origin))
            elif not (s <= e):
                bad = "end %s before start %s" % (vstr(e), vstr(s))
            elif not (e <= horizon):
                bad = "end %s after horizon %s" % (vstr(e), vstr(horizon))
            elif (e[0] - s[0], e[1] - s[1]) != d:
                bad = "duration %s is not end - start (%s - %s)" % (vstr(d), vstr(e), vstr(s))
            elif d < ZERO:
                bad = "negative duration %s" % vstr(d)
            if bad:
                out.append(("C06:interval-atom-ill-formed:%s" % tag, "active atom %s of %s: %s" % (S.name(a["id"]), a["pred"], bad)))
        elif is_impulse(a):
            at = p["at"]
            if not (origin <= at <= horizon):
                out.append(("C06:impulse-atom-ill-formed:%s" % tag, "active atom %s of %s: at %s outside [%s, %s]" % (S.name(a["id"]), a["pred"], vstr(at), vstr(origin), vstr(horizon))))
    return out


def check_c04(S, tag):
    out = []
    act = [a for a in S.atoms.values() if a["state"] == "Active" and is_interval(a) and a["pars"].get("tau") is not None and ":" in a["pred"] and a["pred"].split(":")[0] in ("S", "M")]
    for a in act:
        if len(tau_of(a)) != 1:
            out.append(("C04:active-atom-with-undecided-instance:%s" % tag, "active atom %s still has %d possible state variables" % (S.name(a["id"]), len(tau_of(a)))))
    for a, b in itertools.combinations(act, 2):
        common = set(tau_of(a)) & set(tau_of(b))
        if not common:
            continue
        s = max(a["pars"]["start"], b["pars"]["start"])
        e = min(a["pars"]["end"], b["pars"]["end"])
        if s < e:
            zl = "zero-length" if (a["pars"]["start"] == a["pars"]["end"] or b["pars"]["start"] == b["pars"]["end"]) else "proper"
            out.append(("C04:overlapping-atoms-on-one-state-variable:%s" % tag, "%s [%s,%s) and %s [%s,%s) are both active on the same state variable" % (S.name(a["id"]), vstr(a["pars"]["start"]), vstr(a["pars"]["end"]), S.name(b["id"]), vstr(b["pars"]["start"]), vstr(b["pars"]["end"]))))
    for tl in S.res.get("timelines") or []:
        if tl.get("type") != "StateVariable":
            continue
        for seg in tl.get("values", []):
            if len(seg.get("atoms", [])) > 1:
                out.append(("C04:timeline-segment-with-several-atoms:%s" % tag, "extracted state-variable timeline has a segment with %d atoms" % len(seg["atoms"])))
    return out


def jq(v):
    return (F(v["num"], v["den"]), F(v["inf"]["num"], v["inf"]["den"]) if "inf" in v else F(0))


def check_c05(S, tag):
    out = []
    uses = [a for a in S.atoms.values() if a["state"] == "Active" and (a["pred"].endswith(":Use") or a["pred"].endswith(":Drill")) and is_interval(a)]
    caps = {}
    for oid, it in S.items.items():
        f = S.item_fields(oid)
        if "capacity" in f:
            caps[oid] = f["capacity"]
    for a in uses:
        if len(tau_of(a)) != 1:
            out.append(("C05:active-use-with-undecided-resource:%s" % tag, "active Use atom %s still has %d possible resources" % (S.name(a["id"]), len(tau_of(a)))))
    for rid, cap in caps.items():
        mine = [a for a in uses if tau_of(a) == [rid]]
        pulses = sorted({a["pars"]["start"] for a in mine} | {a["pars"]["end"] for a in mine})
        for p in pulses:
            tot = ZERO
            cover = []
            for a in mine:
                if a["pars"]["start"] <= p < a["pars"]["end"]:
                    tot = (tot[0] + a["pars"]["amount"][0], tot[1] + a["pars"]["amount"][1])
                    cover.append(S.name(a["id"]))
            if tot > cap:
                out.append(("C05:capacity-exceeded:%s" % tag, "at time %s the active uses %s need %s of a resource with capacity %s" % (vstr(p), cover, vstr(tot), vstr(cap))))
                break
    for tl in S.res.get("timelines") or []:
        if tl.get("type") != "ReusableResource":
            continue
        rid = tl["id"]
        mine = [a for a in uses if tau_of(a) == [rid]]
        for seg in tl.get("values", []):
            fr, to = jq(seg["from"]), jq(seg["to"])
            tot = ZERO
            for a in mine:
                if a["pars"]["start"] <= fr and to <= a["pars"]["end"] and a["pars"]["start"] < a["pars"]["end"]:
                    tot = (tot[0] + a["pars"]["amount"][0], tot[1] + a["pars"]["amount"][1])
            if jq(seg["usage"]) != tot:
                out.append(("C05:timeline-usage-differs-from-sum:%s" % tag, "segment [%s,%s) reports usage %s but the covering active uses sum to %s" % (vstr(fr), vstr(to), vstr(jq(seg["usage"])), vstr(tot))))
                break
    return out


def a_is_sub(c):
    """the atom was created by a rule (it has causes), and its flaw is in the plan"""
    return bool(c.get("causes")) and c.get("phi") == "T"


def check_c03(S, tag):
    """justification of every atom, from the causal information dumped by the runner"""
    out = []
    C = S.causal
    for aid, c in C.items():
        a = S.atoms.get(aid)
        if a is None:
            continue
        if c["phi"] == "T":
            if a["state"] == "Inactive":
                out.append(("C03:plan-atom-neither-active-nor-unified:%s" % tag, "atom %s of %s belongs to the plan but is neither active nor unified" % (S.name(aid), a["pred"])))
                continue
            chosen = [r for r in c["resolvers"] if r["rho"] == "T"]
            if not chosen:
                out.append(("C03:plan-atom-without-resolver:%s" % tag, "atom %s is in the plan but none of its resolvers is active" % S.name(aid)))
                continue
            if a["state"] == "Unified":
                us = [r for r in chosen if r["kind"] == "unify"]
                if not us:
                    out.append(("C03:unified-atom-without-unification:%s" % tag, "atom %s is 'Unified' but no unification resolver is active" % S.name(aid)))
                    continue
                for r in us:
                    t = S.atoms.get(r["target"])
                    if t is None or t["state"] != "Active":
                        out.append(("C03:unified-with-non-active-atom:%s" % tag, "atom %s is unified with %s, which is %s" % (S.name(aid), S.name(r["target"]), t["state"] if t else "unknown")))
                        continue
                    if t["pred"] != a["pred"]:
                        out.append(("C03:unified-with-other-predicate:%s" % tag, "atom %s (%s) unified with %s (%s)" % (S.name(aid), a["pred"], S.name(t["id"]), t["pred"])))
                        continue
                    for pn, pv in a["pars"].items():
                        tv = t["pars"].get(pn)
                        same = pv == tv
                        if not same and isinstance(pv, tuple) and isinstance(tv, tuple) and pv[0] in ("obj", "var") and tv[0] in ("obj", "var"):
                            va = [pv[1]] if pv[0] == "obj" else list(pv[1])
                            vb = [tv[1]] if tv[0] == "obj" else list(tv[1])
                            same = len(va) == 1 and va == vb
                        if not same:
                            out.append(("C03:unified-atoms-differ-on-argument:%s" % tag, "atom %s unified with %s but argument '%s' differs: %s vs %s" % (S.name(aid), S.name(t["id"]), pn, vstr(pv), vstr(tv))))
                            break
            if a["state"] == "Active" and not c["is_fact"]:
                for r in chosen:
                    if r["kind"] != "activate":
                        continue
                    for pre in r["preconditions"]:
                        # a flaw with further causes (a timeline inconsistency with an atom of a disjunct that was not
                        # chosen) is required only when all its causes are active
                        if pre["phi"] != "T" and pre.get("all_causes_active", True):
                            out.append(("C03:subgoal-of-active-goal-not-in-plan:%s" % tag, "goal %s is active but a flaw required by its rule is not in the plan" % S.name(aid)))
    # acyclicity of causal support.  'needs': a parent needs the sub-atoms its rule created (directly or through a
    # disjunction / variable choice inside the rule), a unified atom needs its target.  A cycle means that some atom is
    # (transitively) supported through unification by an atom it gave rise to.  The second graph (target -> unified atom
    # instead of unified atom -> target) catches an atom unified with one of its own descendants.
    needs, gives = {}, {}
    for aid, c in C.items():
        for cs in c["causes"]:
            if cs["effect_atom"] and cs["rho"] == "T" and not cs["unify"]:
                needs.setdefault(cs["effect_atom"], set()).add(aid)
                gives.setdefault(cs["effect_atom"], set()).add(aid)
        if a_is_sub(c):
            for anc in c.get("ancestor_atoms", []):
                needs.setdefault(anc, set()).add(aid)
                gives.setdefault(anc, set()).add(aid)
        for r in c["resolvers"]:
            if r["kind"] == "unify" and r["rho"] == "T":
                needs.setdefault(aid, set()).add(r["target"])
                gives.setdefault(r["target"], set()).add(aid)

    def find_cycle(edges):
        color = {}

        def dfs(u, stack):
            color[u] = 1
            for v in edges.get(u, ()):
                if color.get(v) == 1:
                    return stack + [u, v]
                if color.get(v) is None:
                    r = dfs(v, stack + [u])
                    if r:
                        return r
            color[u] = 2
            return None
        for u in list(edges):
            if color.get(u) is None:
                cyc = dfs(u, [])
                if cyc:
                    return cyc
        return None
    for edges in (needs, gives):
        cyc = find_cycle(edges)
        if cyc:
            cyc = cyc[cyc.index(cyc[-1]):]
            out.append(("C03:cyclic-causal-support:%s" % tag, "cycle of causal support (x -> y: x needs y) through atoms " + " -> ".join(S.name(x) for x in cyc)))
            break
    return out


# ---- planted solutions -------------------------------------------------------------------------------------------
def sv_has_sequential_plan(m):
    """Is there an assignment of instances and an ordering with all atoms active?  Variables: start_i, end_i, origin(=0 lower), horizon."""
    ts = m["templates"]
    n = len(ts)
    nv = 2 * n + 1  # starts, ends, horizon
    H = 2 * n
    base = []

    def row(coefs, b, strict=False):
        c = [0] * nv
        for i, v in coefs:
            c[i] += v
        base.append((tuple(c), b, strict))
    for i, (kind, pred, tau, timing) in enumerate(ts):
        s, e = 2 * i, 2 * i + 1
        row([(s, -1)], 0)             # start >= 0 (origin >= 0, start >= origin; origin can be 0)
        row([(s, 1), (e, -1)], 0)     # start <= end
        row([(e, 1), (H, -1)], 0)     # end <= horizon
        if kind == "goal" and pred == "P":
            row([(s, 1), (e, -1)], -1)  # duration >= 1
        def fix(var, val):
            row([(var, 1)], val)
            row([(var, -1)], -val)
        if timing == "at0":
            fix(s, 0)
        elif timing == "at5":
            fix(s, 5)
        elif timing == "0to5":
            fix(s, 0); fix(e, 5)
        elif timing == "5to10":
            fix(s, 5); fix(e, 10)
        elif timing == "zero@5":
            fix(s, 5); fix(e, 5)
        elif timing == "pin0to5":
            fix(s, 0); fix(e, 5)
        elif timing == "pin3to8":
            fix(s, 3); fix(e, 8)
        elif timing == "0toGt5":
            fix(s, 0)
            row([(e, -1)], -5, True)  # end > 5
        elif timing == "chain" and i > 0:
            row([(s, 1), (2 * (i - 1) + 1, -1)], 0)
            row([(s, -1), (2 * (i - 1) + 1, 1)], 0)
    if m["horizon"]:
        row([(H, 1)], m["horizon"])
    insts = ["s0", "s1"][:m["ninst"]]
    choices = [[t[2]] if t[2] != "v" else insts for t in ts]
    for assign in itertools.product(*choices):
        groups = {}
        for i, inst in enumerate(assign):
            groups.setdefault(inst, []).append(i)
        orders = [list(itertools.permutations(g)) for g in groups.values()]
        for combo in itertools.product(*orders):
            rows = list(base)
            for order in combo:
                for a, b in zip(order, order[1:]):
                    c = [0] * nv
                    c[2 * a + 1] += 1
                    c[2 * b] -= 1
                    rows.append((tuple(c), 0, False))  # end_a <= start_b
            if fm_feasible_n(rows, nv):
                return True
    return False


def rr_has_sequential_plan(m):
    us = m["uses"]
    if any(u[0] > m["cap"] for u in us if u[1] > 0):
        return False
    # place all uses one after another on r0/r1 respecting fixed starts: sufficient condition only
    n = len(us)
    nv = n + 1
    H = n
    base = []
    for i, (amount, dur, start, res) in enumerate(us):
        c = [0] * nv
        c[i] = -1
        base.append((tuple(c), 0, False))
        c = [0] * nv
        c[i] = 1
        c[H] = -1
        base.append((tuple(c), -dur, False))  # start + dur <= horizon
        if start != "free":
            v = int(start.lstrip("p"))
            c = [0] * nv
            c[i] = 1
            base.append((tuple(c), v, False))
            c = [0] * nv
            c[i] = -1
            base.append((tuple(c), -v, False))
    if m["horizon"]:
        c = [0] * nv
        c[H] = 1
        base.append((tuple(c), m["horizon"], False))
    idx = [i for i in range(n) if us[i][1] > 0]
    for order in itertools.permutations(idx):
        rows = list(base)
        for a, b in zip(order, order[1:]):
            c = [0] * nv
            c[a] += 1
            c[b] -= 1
            rows.append((tuple(c), -us[a][1], False))
        if fm_feasible_n(rows, nv):
            return True
    return False


def judge(prog, res):
    pid, text, m = prog
    v = res.get("verdict")
    fam = m["fam"]
    if fam == "sv":
        tag = "sv:" + ("var-tau" if any(t[2] == "v" for t in m["templates"]) else "fixed-tau")
    elif fam == "rr":
        tag = "rr:" + ("var-resource" if m["two"] else "fixed-resource")
    else:
        tag = "%s:%s" % (m["decl"], m["kind"])
    if v in ("abort", "exception", "bad-json", "missing"):
        return ("C18:valid-program:%s:%s" % (v, tag), "%s: %s" % (v, res.get("what", "")[:600]))
    if v == "timeout":
        return ("C18:valid-program:no-answer-within-limit:%s" % tag, res.get("what", ""))
    if v == "reader-error":
        return ("C16:valid-program-rejected:" + tag, "the reader rejected the program: " + res.get("what", ""))
    if v in ("unsolvable", "inconsistent"):
        def sub(alt):
            mm = dict(m)
            mm["templates" if fam == "sv" else "uses"] = [m["templates" if fam == "sv" else "uses"][i] for i in alt]
            return mm
        subs = [sub(a) for a in m["alts"]] if m.get("alts") else [m]
        planted = any((fam == "sv" and sv_has_sequential_plan(x)) or (fam == "rr" and rr_has_sequential_plan(x)) for x in subs)
        if fam == "basic":
            # every bound of gen_basic leaves a solution except a start beyond a bounded horizon (none generated)
            planted = True
        if planted:
            return ("C02:planted-solution-rejected:%s" % tag, "reported %s although a sequential placement of all atoms satisfies every constraint" % v)
        return None
    S = Solution(res)
    out = []
    out += check_c06(S, tag)
    out += check_c04(S, tag)
    out += check_c05(S, tag)
    out += check_c03(S, tag)
    return out or None
