#!/usr/bin/env python3
"""seedsweep.py [--lanes N] [--only ID,ID,... (seed names; merged into the existing SWEEP.json)] : regression sweep of the stored seeded changes against the registered checks.

Every seeded/<id>/patch.diff is applied to a scratch worktree of /repo's HEAD (never to /repo itself), the quick tier of
the check that is recorded as catching it (first "Cxx quick" entry of meta.json's caught_by, else the property's own
check) is run from a scratch copy of /verif with VERIF_REPO pointing at that worktree, and the outcome is written to
seeded/SWEEP.json: "caught" (exit 1 and a VIOLATION line), "missed" (exit 0), "does-not-apply" (the patch was written
for an earlier base and no longer applies to the current tree) or "harness-error".  A miss is expected ("expected": true)
where meta.json records the seed as superseded (it no longer breaks the property after a later repair of /repo) or as
out of scope (empty caught_by); any other miss is a regression of the checks.  The lanes (worktree + copy + build
trees) live under /tmp/seedsweep and are removed at the end.  Nothing here is used by a registered check.
"""
import json, os, re, shutil, subprocess, sys, threading, time

VERIF = os.path.dirname(os.path.dirname(os.path.abspath(__file__)))
ROOT = "/tmp/seedsweep"


def sh(cmd, **kw):
    return subprocess.run(cmd, shell=True, stdout=subprocess.PIPE, stderr=subprocess.STDOUT, text=True, **kw)


def main():
    lanes = 3
    only = None
    a = sys.argv[1:]
    while a:
        if a[0] == "--lanes":
            lanes = int(a[1]); a = a[2:]
        elif a[0] == "--only":
            only = set(a[1].split(",")); a = a[2:]
        else:
            sys.exit(__doc__)
    seeds = []
    for d in sorted(os.listdir(os.path.join(VERIF, "seeded"))):
        p = os.path.join(VERIF, "seeded", d)
        if not os.path.isfile(os.path.join(p, "meta.json")):
            continue
        if only and d not in only:
            continue
        meta = json.load(open(os.path.join(p, "meta.json")))
        target = None
        for c in meta.get("caught_by", []):
            m = re.match(r"(C\d\d) quick", c)
            if m:
                target = m.group(1)
                break
        if target is None:
            target = meta["property"]
        seeds.append({"seed": d, "property": meta["property"], "check": target, "recorded_caught_by": meta.get("caught_by", []),
                      "recorded_status": meta.get("status", "")})
    groups = {}
    for s in seeds:
        groups.setdefault(s["check"], []).append(s)
    queue = sorted(groups.values(), key=lambda g: -len(g))
    lock = threading.Lock()
    results = []
    head = subprocess.check_output(["git", "-C", "/repo", "rev-parse", "--short", "HEAD"], text=True).strip()

    def lane(i):
        base = os.path.join(ROOT, "lane%d" % i)
        repo, verif = os.path.join(base, "repo"), os.path.join(base, "verif")
        shutil.rmtree(base, ignore_errors=True)
        os.makedirs(base)
        r = sh("git -C /repo worktree add --detach %s HEAD" % repo)
        if r.returncode:
            print(r.stdout); return
        sh("rsync -a --exclude build --exclude .git %s/ %s/" % (VERIF, verif))
        env = dict(os.environ, VERIF_REPO=repo)
        env.pop("VERIF_BUILD", None)
        while True:
            with lock:
                if not queue:
                    break
                g = queue.pop(0)
            for s in g:
                patch = os.path.join(VERIF, "seeded", s["seed"], "patch.diff")
                t0 = time.time()
                if sh("git -C %s apply --check %s" % (repo, patch)).returncode:
                    s["outcome"] = "does-not-apply"
                else:
                    sh("git -C %s apply %s" % (repo, patch))
                    r = sh("./check %s quick" % s["check"], cwd=verif, env=env)
                    sh("git -C %s checkout -- . && git -C %s clean -fdq" % (repo, repo))
                    viol = [l for l in r.stdout.splitlines() if l.startswith("VIOLATION")]
                    s["exit"] = r.returncode
                    s["violation_lines"] = len(viol)
                    s["first_violation"] = viol[0][:300] if viol else None
                    s["outcome"] = "caught" if (r.returncode == 1 and viol) else "missed" if r.returncode == 0 else "harness-error"
                    if s["outcome"] == "harness-error":
                        s["tail"] = r.stdout[-1500:]
                s["expected"] = s["outcome"] == "caught" or (s["outcome"] == "missed" and (s["recorded_status"].startswith("superseded") or not s["recorded_caught_by"]))
                s["seconds"] = round(time.time() - t0)
                with lock:
                    results.append(s)
                    print("%-6s -> %s quick: %s (%ss)" % (s["seed"], s["check"], s["outcome"], s["seconds"]), flush=True)
        sh("git -C /repo worktree remove --force %s" % repo)
        shutil.rmtree(base, ignore_errors=True)

    ts = [threading.Thread(target=lane, args=(i,)) for i in range(lanes)]
    for t in ts:
        t.start()
    for t in ts:
        t.join()
    shutil.rmtree(ROOT, ignore_errors=True)
    sh("git -C /repo worktree prune")
    path = os.path.join(VERIF, "seeded", "SWEEP.json")
    if only and os.path.isfile(path):  # a partial sweep replaces the entries of the seeds it ran, the others stay
        done = {s["seed"] for s in results}
        results += [s for s in json.load(open(path))["results"] if s["seed"] not in done]
    results.sort(key=lambda s: s["seed"])
    out = {"repo_head": head, "date": time.strftime("%Y-%m-%d"), "tier": "quick", "results": results,
           "summary": {k: sum(1 for s in results if s["outcome"] == k) for k in ("caught", "missed", "does-not-apply", "harness-error")}}
    out["summary"]["unexpected"] = sum(1 for s in results if not s.get("expected"))
    json.dump(out, open(path, "w"), indent=1)
    print(json.dumps(out["summary"]))


if __name__ == "__main__":
    main()
