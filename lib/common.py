"""Evidence / known-findings / replay plumbing shared by all checks."""
import json, os, re, subprocess, sys, time

VERIF = os.path.dirname(os.path.dirname(os.path.abspath(__file__)))
KNOWN = os.path.join(VERIF, "known_findings.json")
SEED = int(os.environ.get("VERIF_SEED", "0") or 0)


def load_known():
    try:
        return json.load(open(KNOWN))
    except FileNotFoundError:
        return []


def slug(s):
    return re.sub(r"[^A-Za-z0-9_.+=-]+", "_", s)[:120].strip("_") or "x"


class Outcome:
    """Collects what one check run covered and what it found; writes evidence; sets exit code."""

    def __init__(self, pid, tier, level):
        self.pid, self.tier, self.level = pid, tier, level
        self.t0 = time.time()
        self.coverage = {}
        self.assumptions = []
        self.findings = []  # dicts: key, case, msg, count, replay (dict to store in the replay file)
        self.harness_errors = []

    def add_findings(self, flist, engine, cfg, extra=None, exe=None, args=()):
        for f in flist:
            g = dict(f)
            g["engine"] = engine
            g["cfg"] = cfg
            if exe:
                g["exe"] = exe
                g["args"] = list(args)
            if extra:
                g.update(extra)
            self.findings.append(g)

    def finish(self):
        known = load_known()
        open_keys = {(k["property"], k["key"]): k for k in known if k.get("status") == "open"}
        violations = 0
        seen_keys = sorted({f["key"] for f in self.findings})
        reported = set()
        for f in self.findings:
            if f["key"] in reported:
                continue
            reported.add(f["key"])
            kk = (self.pid, f["key"])
            if kk in open_keys:
                print("KNOWN-FINDING: property=%s %s [%s] (%s)" % (self.pid, open_keys[kk].get("what", ""), f["key"], f.get("case", "")[:200]), flush=True)
                continue
            if f.get("exe") and f.get("case"):
                # replay before report: the same case must fail again, alone, twice
                ok1, t1 = replay_confirm(f["exe"], f["case"], args=f.get("args", []))
                ok2, t2 = replay_confirm(f["exe"], f["case"], args=f.get("args", []))
                if not (ok1 and ok2):
                    self.harness_errors.append("finding %s (%s) did not reproduce on replay: %s" % (f["key"], f["case"][:200], (t1 + t2)[-400:]))
                    continue
            rdir = os.path.join(VERIF, "replays", self.pid)
            os.makedirs(rdir, exist_ok=True)
            rpath = os.path.join(rdir, slug(f["key"]) + ".json")
            json.dump({"property": self.pid, "key": f["key"], "engine": f.get("engine"), "cfg": f.get("cfg"),
                       "case": f.get("case"), "explanation": f.get("msg"), "count": f.get("count", 1),
                       "args": f.get("args", [])}, open(rpath, "w"), indent=1)
            print("VIOLATION property=%s replay=%s" % (self.pid, rpath), flush=True)
            print("  key=%s case=%s\n  %s" % (f["key"], (f.get("case") or "")[:300], (f.get("msg") or "")[:600]), flush=True)
            violations += 1
        cov = dict(self.coverage)
        cov["finding_keys_seen"] = seen_keys
        ev = {"property_id": self.pid, "tier": self.tier, "seed": SEED, "level": self.level, "coverage": cov,
              "assumptions": self.assumptions, "wall_s": round(time.time() - self.t0, 2), "violations": violations}
        os.makedirs(os.path.join(VERIF, "evidence"), exist_ok=True)
        json.dump(ev, open(os.path.join(VERIF, "evidence", self.pid + ".json"), "w"), indent=1)
        if self.harness_errors:
            for e in self.harness_errors:
                print("HARNESS-ERROR: " + e, flush=True)
            return 2 if not violations else 1
        return 1 if violations else 0


def run_harness(exe, args, out_json, timeout=None, env=None):
    """Runs a harness executable that writes a result JSON; returns the parsed result."""
    if os.path.exists(out_json):
        os.remove(out_json)
    e = dict(os.environ)
    e.setdefault("ASAN_OPTIONS", "detect_leaks=0:abort_on_error=1")
    e.setdefault("UBSAN_OPTIONS", "print_stacktrace=1")
    if env:
        e.update(env)
    p = subprocess.run([exe] + [str(a) for a in args] + ["--out", out_json], env=e, timeout=timeout)
    if p.returncode != 0 or not os.path.exists(out_json):
        raise RuntimeError("harness %s exited with %s" % (exe, p.returncode))
    return json.load(open(out_json))


def replay_confirm(exe, case, key=None, args=(), timeout=120):
    """Re-runs one case alone.  Returns (reproduced, text).  Reproduced = non-zero exit (finding or crash)."""
    e = dict(os.environ)
    e.setdefault("ASAN_OPTIONS", "detect_leaks=0:abort_on_error=1")
    try:
        p = subprocess.run([exe] + [str(a) for a in args] + ["--replay", case], stdout=subprocess.PIPE, stderr=subprocess.STDOUT, timeout=timeout, env=e)
    except subprocess.TimeoutExpired:
        return True, "hang (replay timed out)"
    txt = p.stdout.decode(errors="replace")
    if p.returncode == 2 and "case not found" in txt:
        return False, txt
    return p.returncode != 0, txt
