// Sequential reference for C20: runs the scenarios of engine/pivot_scen.h on the library built WITHOUT
// PARALLELIZE and prints one line "<id>\t<canonical state>" per scenario.
#include "pivot_scen.h"
#include <iostream>
int main()
{
  for (int id = 0; id < scen::N_SCEN; ++id)
  {
    smt::sat_core sat;
    std::string s = scen::run(id, sat, [](smt::lra_theory &) {});
    std::cout << id << "\t" << s << "\n";
  }
  return 0;
}
