// E2 netmc: exhaustive API histories on small constraint networks (real sat_core + theories),
// judged against reference models (truth tables, Fourier-Motzkin, Floyd-Warshall).
//
//   netmc --prop C07|C08|C09|C10|C14 --tier quick|thorough [--replay "<net> | <history>"]
//
// A state is represented by the history that reaches it; every history is replayed on a fresh
// network inside a deterministic-allocation scope.
#include "arena.h"
#include "driver.h"
#include "fm.h"
#include "netread.h"
#include "lra_theory.h"
#include "lra_constraint.h"
#include "idl_theory.h"
#include "rdl_theory.h"
#include "ov_theory.h"
#include "var_value.h"
#include <memory>
#include <sstream>

using namespace smt;
using ref::Q;
using ref::Qe;
using tt::TT;

// =================================================================================================
// network specification
// =================================================================================================
struct LAtom
{
  std::vector<Q> c; // one per real variable
  int op;           // 0 <=, 1 <, 2 >=, 3 >
  Q k;
};
struct DAtom
{
  size_t from, to;
  Q d;       // to - from <= d
  int e = 0; // rdl only: infinitesimal part of the bound, to - from <= d + e*eps (e = -1 is the strict to - from < d)
};
struct OVar
{
  unsigned dom;      // bitmask over the value universe
  bool lazy = false; // created with enforce_exct_one = false (the planner's variant: exclusion is left to the caller)
  int parent = -1;   // >= 0: derived variable, created with new_var(lits, vals) from the value literals of that variable
  std::vector<int> map; // derived: the value taken for each value of the parent's domain (ascending), injective
};
struct Spec
{
  int nb = 0;
  int nlra = 0;
  std::vector<LAtom> la;
  int nidl = 0;
  std::vector<DAtom> ia;
  int nrdl = 0;
  std::vector<DAtom> ra;
  int nval = 0;
  std::vector<OVar> ov;
  std::vector<std::pair<int, int>> oe; // equality requests between object variables
  std::vector<int> oe_after;           // per request: issued as soon as this many variables exist (0 = after all of them)
  std::vector<std::vector<int>> cl;    // clauses over signed slot numbers
  int depth = 0;                       // exploration depth for this network (0 = family default); not part of the text
  std::string alphabet;                // operations explored on this network ("" = family default); not part of the text
};
struct Op
{
  char kind; // 'a' assume, 'p' pop, 'n' next, 'r' propagate, 'k' check, 'c' new_clause(+propagate), 's' simplify_db,
             // 'v' create (wherever the history stands) a variable from the value literals of variable args[0], as var_item::get does
  std::vector<int> args;
};

static std::string qtxt(const Q &q) { return ref::str(q); }
static Q parse_q(const std::string &s)
{
  size_t p = s.find('/');
  if (p == std::string::npos)
    return Q(std::atol(s.c_str()));
  return Q(std::atol(s.substr(0, p).c_str()), std::atol(s.substr(p + 1).c_str()));
}
static const char *OPN[] = {"le", "lt", "ge", "gt"};
static std::string slots_txt(const std::vector<int> &v)
{
  std::string s;
  for (size_t i = 0; i < v.size(); ++i)
    s += std::string(i ? "," : "") + (v[i] > 0 ? "+" : "-") + std::to_string(std::abs(v[i]));
  return s;
}
static std::string spec_txt(const Spec &s)
{
  std::string t = "b=" + std::to_string(s.nb);
  if (s.nlra)
  {
    t += " lra=" + std::to_string(s.nlra);
    for (auto &a : s.la)
    {
      t += " la:";
      for (size_t i = 0; i < a.c.size(); ++i)
        t += (i ? "," : "") + qtxt(a.c[i]);
      t += std::string("|") + OPN[a.op] + "|" + qtxt(a.k);
    }
  }
  if (s.nidl)
  {
    t += " idl=" + std::to_string(s.nidl);
    for (auto &a : s.ia)
      t += " ia:" + std::to_string(a.from) + ">" + std::to_string(a.to) + ":" + qtxt(a.d);
  }
  if (s.nrdl)
  {
    t += " rdl=" + std::to_string(s.nrdl);
    for (auto &a : s.ra)
      t += " ra:" + std::to_string(a.from) + ">" + std::to_string(a.to) + ":" + qtxt(a.d) + (a.e ? "~" + std::to_string(a.e) : "");
  }
  if (!s.ov.empty())
  {
    t += " nval=" + std::to_string(s.nval);
    for (auto &v : s.ov)
    {
      t += " ov:" + std::to_string(v.dom) + (v.lazy ? "n" : "");
      if (v.parent >= 0)
      {
        t += "<" + std::to_string(v.parent) + ":";
        for (size_t mi = 0; mi < v.map.size(); ++mi)
          t += (mi ? "," : "") + std::to_string(v.map[mi]);
      }
    }
    for (size_t i = 0; i < s.oe.size(); ++i)
      t += " oe:" + std::to_string(s.oe[i].first) + "," + std::to_string(s.oe[i].second) + (i < s.oe_after.size() && s.oe_after[i] ? "@" + std::to_string(s.oe_after[i]) : "");
  }
  for (auto &c : s.cl)
    t += " cl:" + slots_txt(c);
  return t;
}
static std::string op_txt(const Op &o)
{
  switch (o.kind)
  {
  case 'a':
    return "a" + slots_txt(o.args);
  case 'p':
    return "pop";
  case 'n':
    return "next";
  case 'r':
    return "prop";
  case 'k':
    return "chk(" + slots_txt(o.args) + ")";
  case 'c':
    return "cl(" + slots_txt(o.args) + ")";
  case 'v':
    return o.args.empty() ? std::string("late") : "late(" + std::to_string(o.args[0]) + ")";
  default:
    return "simp";
  }
}
static std::string hist_txt(const std::vector<Op> &h)
{
  std::string t;
  for (auto &o : h)
    t += (t.empty() ? "" : " ") + op_txt(o);
  return t;
}
static std::vector<int> parse_slots(const std::string &s)
{
  std::vector<int> v;
  size_t p = 0;
  while (p < s.size())
  {
    size_t q = s.find(',', p);
    if (q == std::string::npos)
      q = s.size();
    if (q > p)
      v.push_back(std::atoi(s.substr(p, q - p).c_str()));
    p = q + 1;
  }
  return v;
}
static void parse_case(const std::string &txt, Spec &s, std::vector<Op> &h)
{
  std::istringstream is(txt);
  std::string tok;
  bool in_hist = false;
  while (is >> tok)
  {
    if (tok == "|")
    {
      in_hist = true;
      continue;
    }
    if (!in_hist)
    {
      if (tok.rfind("b=", 0) == 0)
        s.nb = std::atoi(tok.c_str() + 2);
      else if (tok.rfind("lra=", 0) == 0)
        s.nlra = std::atoi(tok.c_str() + 4);
      else if (tok.rfind("idl=", 0) == 0)
        s.nidl = std::atoi(tok.c_str() + 4);
      else if (tok.rfind("rdl=", 0) == 0)
        s.nrdl = std::atoi(tok.c_str() + 4);
      else if (tok.rfind("nval=", 0) == 0)
        s.nval = std::atoi(tok.c_str() + 5);
      else if (tok.rfind("la:", 0) == 0)
      {
        LAtom a;
        size_t p1 = tok.find('|'), p2 = tok.find('|', p1 + 1);
        std::string cs = tok.substr(3, p1 - 3), os = tok.substr(p1 + 1, p2 - p1 - 1), ks = tok.substr(p2 + 1);
        size_t p = 0;
        while (p <= cs.size())
        {
          size_t q = cs.find(',', p);
          if (q == std::string::npos)
            q = cs.size();
          a.c.push_back(parse_q(cs.substr(p, q - p)));
          p = q + 1;
        }
        a.op = os == "le" ? 0 : os == "lt" ? 1 : os == "ge" ? 2 : 3;
        a.k = parse_q(ks);
        s.la.push_back(a);
      }
      else if (tok.rfind("ia:", 0) == 0 || tok.rfind("ra:", 0) == 0)
      {
        DAtom a;
        size_t p1 = tok.find('>'), p2 = tok.find(':', p1);
        a.from = std::atoi(tok.substr(3, p1 - 3).c_str());
        a.to = std::atoi(tok.substr(p1 + 1, p2 - p1 - 1).c_str());
        {
          std::string ds = tok.substr(p2 + 1);
          size_t te = ds.find('~');
          a.d = parse_q(ds.substr(0, te));
          a.e = te == std::string::npos ? 0 : std::atoi(ds.c_str() + te + 1);
        }
        (tok[0] == 'i' ? s.ia : s.ra).push_back(a);
      }
      else if (tok.rfind("ov:", 0) == 0)
      {
        OVar o;
        o.dom = (unsigned)std::atoi(tok.c_str() + 3);
        size_t lt = tok.find('<');
        o.lazy = lt == std::string::npos && tok.back() == 'n';
        if (lt != std::string::npos)
        {
          size_t cl = tok.find(':', lt);
          o.parent = std::atoi(tok.c_str() + lt + 1);
          for (auto x : parse_slots(tok.substr(cl + 1)))
            o.map.push_back(x);
        }
        s.ov.push_back(o);
      }
      else if (tok.rfind("oe:", 0) == 0)
      {
        std::string body = tok.substr(3);
        size_t at = body.find('@');
        auto v = parse_slots(body.substr(0, at));
        s.oe.push_back({v[0], v[1]});
        s.oe_after.resize(s.oe.size(), 0);
        if (at != std::string::npos)
          s.oe_after.back() = std::atoi(body.c_str() + at + 1);
      }
      else if (tok.rfind("cl:", 0) == 0)
        s.cl.push_back(parse_slots(tok.substr(3)));
    }
    else
    {
      Op o;
      if (tok == "pop")
        o.kind = 'p';
      else if (tok == "next")
        o.kind = 'n';
      else if (tok == "prop")
        o.kind = 'r';
      else if (tok == "simp")
        o.kind = 's';
      else if (tok.rfind("chk(", 0) == 0)
      {
        o.kind = 'k';
        o.args = parse_slots(tok.substr(4, tok.size() - 5));
      }
      else if (tok.rfind("cl(", 0) == 0)
      {
        o.kind = 'c';
        o.args = parse_slots(tok.substr(3, tok.size() - 4));
      }
      else if (tok.rfind("late(", 0) == 0)
      {
        o.kind = 'v';
        o.args = {std::atoi(tok.c_str() + 5)};
      }
      else
      {
        o.kind = 'a';
        o.args = parse_slots(tok.substr(1));
      }
      h.push_back(o);
    }
  }
}

// =================================================================================================
// probes: theories subclassed to observe conflicts and lemmas before the core consumes them
// =================================================================================================
struct TheoryLog
{
  std::vector<std::pair<std::string, std::vector<lit>>> items; // (theory, clause that the theory claims valid)
};
static TheoryLog *g_tlog = nullptr;
template <class Base>
struct Probe : Base
{
  const char *name;
  template <class... A>
  Probe(const char *n, A &&...a) : Base(std::forward<A>(a)...), name(n) {}
  bool propagate(const lit &p) noexcept override
  {
    size_t n0 = this->sat->constrs.size();
    bool r = Base::propagate(p);
    grab(n0, r);
    return r;
  }
  bool check() noexcept override
  {
    size_t n0 = this->sat->constrs.size();
    bool r = Base::check();
    grab(n0, r);
    return r;
  }
  void push() noexcept override { Base::push(); }
  void pop() noexcept override { Base::pop(); }
  void grab(size_t n0, bool r)
  {
    if (!g_tlog)
      return;
    for (size_t i = n0; i < this->sat->constrs.size(); ++i)
      g_tlog->items.push_back({std::string(name) + ":lemma", static_cast<clause *>(this->sat->constrs[i])->lits});
    if (!r)
      g_tlog->items.push_back({std::string(name) + ":conflict", this->cnfl});
  }
};

struct Val : var_value
{
  int id;
  Val(int i) : id(i) {}
};

// =================================================================================================
// a live network
// =================================================================================================
struct Net
{
  sat_core sat;
  std::unique_ptr<Probe<lra_theory>> lra;
  std::unique_ptr<Probe<idl_theory>> idl;
  std::unique_ptr<Probe<rdl_theory>> rdl;
  std::unique_ptr<ov_theory> ov;
  std::vector<lit> slot; // slot i (1-based) -> literal
  std::vector<var> lra_vars, idl_vars, rdl_vars, ov_vars;
  std::vector<std::unique_ptr<Val>> vals;
  std::vector<std::vector<int>> ov_slot; // [var][value] -> slot (0 if value not in domain)
  std::vector<unsigned> ov_dom;          // [var] -> domain mask (variables created by a 'v' step included)
  std::vector<int> oe_slot;
  int la_slot0 = 0, ia_slot0 = 0, ra_slot0 = 0;
  bool ok = true; // construction + initial propagate succeeded
  lit L(int s) const { return s > 0 ? slot[s] : !slot[-s]; }
};

static lin mk_lin(const std::vector<Q> &c, const std::vector<var> &vars)
{
  lin l;
  for (size_t i = 0; i < c.size(); ++i)
    if (!c[i].is_zero())
      l.vars.emplace(vars[i], rational((I)c[i].n, (I)c[i].d));
  return l;
}
static rational mk_rat(const Q &q) { return rational((I)q.n, (I)q.d); }

static void build(Net &n, const Spec &s, bool initial_propagate = true)
{
  n.slot.push_back(lit());
  for (int i = 0; i < s.nb; ++i)
    n.slot.push_back(lit(n.sat.new_var()));
  if (s.nlra)
  {
    n.lra.reset(new Probe<lra_theory>("lra", n.sat));
    for (int i = 0; i < s.nlra; ++i)
      n.lra_vars.push_back(n.lra->new_var());
    n.la_slot0 = (int)n.slot.size();
    for (auto &a : s.la)
    {
      lin l = mk_lin(a.c, n.lra_vars), r(mk_rat(a.k));
      lit x = a.op == 0 ? n.lra->new_leq(l, r) : a.op == 1 ? n.lra->new_lt(l, r)
                                             : a.op == 2   ? n.lra->new_geq(l, r)
                                                           : n.lra->new_gt(l, r);
      n.slot.push_back(x);
    }
  }
  if (s.nidl)
  {
    n.idl.reset(new Probe<idl_theory>("idl", n.sat, 2));
    n.idl_vars.push_back(0);
    for (int i = 0; i < s.nidl; ++i)
      n.idl_vars.push_back(n.idl->new_var());
    n.ia_slot0 = (int)n.slot.size();
    for (auto &a : s.ia)
      n.slot.push_back(n.idl->new_distance(n.idl_vars[a.from], n.idl_vars[a.to], (I)a.d.n));
  }
  if (s.nrdl)
  {
    n.rdl.reset(new Probe<rdl_theory>("rdl", n.sat, 2));
    n.rdl_vars.push_back(0);
    for (int i = 0; i < s.nrdl; ++i)
      n.rdl_vars.push_back(n.rdl->new_var());
    n.ra_slot0 = (int)n.slot.size();
    for (auto &a : s.ra)
      n.slot.push_back(n.rdl->new_distance(n.rdl_vars[a.from], n.rdl_vars[a.to], inf_rational(mk_rat(a.d), rational((I)a.e))));
  }
  if (!s.ov.empty())
  {
    n.ov.reset(new ov_theory(n.sat));
    for (int v = 0; v < s.nval; ++v)
      n.vals.emplace_back(new Val(v));
    for (auto &o : s.ov)
    {
      std::vector<var_value *> items;
      for (int v = 0; v < s.nval; ++v)
        if (o.dom & (1u << v))
          items.push_back(n.vals[v].get());
      var ov;
      if (o.parent >= 0)
      { // the value literals of the parent control the values of the derived variable (as var_item::get does for fields)
        std::vector<lit> dl;
        std::vector<var_value *> dv;
        size_t mi = 0;
        for (int v = 0; v < s.nval; ++v)
          if (s.ov[o.parent].dom & (1u << v))
          {
            dl.push_back(n.ov->allows(n.ov_vars[o.parent], *n.vals[v]));
            dv.push_back(n.vals[o.map[mi++]].get());
          }
        ov = n.ov->new_var(dl, dv);
      }
      else
        ov = o.lazy ? n.ov->new_var(items, false) : n.ov->new_var(items);
      n.ov_vars.push_back(ov);
      n.ov_dom.push_back(o.dom);
      std::vector<int> sl(s.nval, 0);
      for (int v = 0; v < s.nval; ++v)
        if (o.dom & (1u << v))
        {
          sl[v] = (int)n.slot.size();
          n.slot.push_back(n.ov->allows(ov, *n.vals[v]));
        }
      n.ov_slot.push_back(sl);
      // equalities requested while later variables do not exist yet
      for (size_t e = 0; e < s.oe.size(); ++e)
        if (e < s.oe_after.size() && s.oe_after[e] == (int)n.ov_vars.size())
        {
          if (n.oe_slot.size() <= e)
            n.oe_slot.resize(e + 1, 0);
          n.oe_slot[e] = (int)n.slot.size();
          n.slot.push_back(n.ov->new_eq(n.ov_vars[s.oe[e].first], n.ov_vars[s.oe[e].second]));
        }
    }
    for (size_t e = 0; e < s.oe.size(); ++e)
      if (!(e < s.oe_after.size() && s.oe_after[e]))
      {
        if (n.oe_slot.size() <= e)
          n.oe_slot.resize(e + 1, 0);
        n.oe_slot[e] = (int)n.slot.size();
        n.slot.push_back(n.ov->new_eq(n.ov_vars[s.oe[e].first], n.ov_vars[s.oe[e].second]));
      }
  }
  for (auto &c : s.cl)
  {
    std::vector<lit> ls;
    for (int a : c)
      ls.push_back(n.L(a));
    if (!n.sat.new_clause(ls))
      n.ok = false;
  }
  if (n.ok && initial_propagate)
    n.ok = n.sat.propagate();
}

// =================================================================================================
// reference semantics
// =================================================================================================
// Per network (cached across replays): table of theory-consistent assignments of the atom literals.
struct NetRef
{
  int k = 0;    // number of sat variables after construction
  TT theory;    // all theories
  TT lra_t, idl_t, rdl_t;
  TT spec;      // user clauses
  bool uses_db; // networks with constructs: the database after construction is part of the base
  TT db0;
};

static fm::Row la_row(const LAtom &a, bool positive)
{
  // positive: sum c x  op k ; negative: the complement
  fm::Row r;
  int op = a.op;
  if (!positive)
    op = op == 0 ? 3 : op == 1 ? 2 : op == 2 ? 1 : 0; // !(<=) is >, !(<) is >=, ...
  bool geq = op >= 2;
  r.strict = (op == 1 || op == 3);
  for (auto &c : a.c)
    r.a.push_back(geq ? -c : c);
  r.b = geq ? -a.k : a.k;
  return r;
}
static fw::Edge d_edge(const DAtom &a, bool positive, bool integer)
{
  if (positive)
    return fw::Edge{a.from, a.to, Qe(a.d, Q(a.e))};
  // !(to - from <= d + e*eps)  =  from - to < -d - e*eps  : integers  <= -d-1 ; reals <= -d - (e+1)*eps
  return integer ? fw::Edge{a.to, a.from, Qe(-a.d - Q(1))} : fw::Edge{a.to, a.from, Qe(-a.d, Q(-a.e - 1))};
}

static TT atoms_tt(int k, size_t na, const std::function<bool(unsigned)> &feasible, const std::function<lit(size_t)> &lit_of)
{
  TT t(k, false);
  for (unsigned sig = 0; sig < (1u << na); ++sig)
  {
    if (!feasible(sig))
      continue;
    TT conj(k, true);
    for (size_t i = 0; i < na; ++i)
      conj &= ((sig >> i) & 1) ? nr::col(k, lit_of(i)) : ~nr::col(k, lit_of(i));
    t |= conj;
  }
  return t;
}

static void make_ref(NetRef &R, const Spec &s, const Net &n)
{
  int k = (int)n.sat.assigns.size();
  R.k = k;
  if (getenv("VERIF_DEBUG_K"))
    std::fprintf(stderr, "k=%d\n", k);
  TT not0 = ~TT::var(k, 0);
  R.lra_t = R.idl_t = R.rdl_t = TT(k, true);
  if (s.nlra)
    R.lra_t = atoms_tt(
        k, s.la.size(), [&](unsigned sig)
        {
          fm::Sys sys;
          for (size_t i = 0; i < s.la.size(); ++i)
            sys.push_back(la_row(s.la[i], (sig >> i) & 1));
          return fm::feasible(sys, (size_t)s.nlra); },
        [&](size_t i)
        { return n.slot[n.la_slot0 + i]; });
  if (s.nidl)
    R.idl_t = atoms_tt(
        k, s.ia.size(), [&](unsigned sig)
        {
          std::vector<fw::Edge> es;
          for (size_t i = 0; i < s.ia.size(); ++i)
            es.push_back(d_edge(s.ia[i], (sig >> i) & 1, true));
          return !fw::close((size_t)s.nidl + 1, es).negative_cycle; },
        [&](size_t i)
        { return n.slot[n.ia_slot0 + i]; });
  if (s.nrdl)
    R.rdl_t = atoms_tt(
        k, s.ra.size(), [&](unsigned sig)
        {
          std::vector<fw::Edge> es;
          for (size_t i = 0; i < s.ra.size(); ++i)
            es.push_back(d_edge(s.ra[i], (sig >> i) & 1, false));
          return !fw::close((size_t)s.nrdl + 1, es).negative_cycle; },
        [&](size_t i)
        { return n.slot[n.ra_slot0 + i]; });
  R.theory = R.lra_t & R.idl_t & R.rdl_t & not0;
  R.spec = TT(k, true);
  for (auto &c : s.cl)
  {
    std::vector<lit> ls;
    for (int a : c)
      ls.push_back(n.L(a));
    R.spec &= nr::clause_tt(k, ls);
  }
  R.uses_db = !s.ov.empty();
}

// =================================================================================================
// oracles
// =================================================================================================
enum
{
  O_ENTAIL = 1,  // C07 (1)-(4)
  O_THEORY = 2,  // validity of theory conflicts / lemmas
  O_LRA = 4,     // C09
  O_DL = 8,      // C10
  O_UNDO = 16,   // C08
  O_OV = 32      // C14
};
static unsigned g_oracles = O_ENTAIL | O_THEORY;
static std::string g_prop = "C07";

struct Ctx
{
  const Spec *spec;
  const std::string *spec_text;
  NetRef *ref;
};

static bool g_mute_reports();
static void report(const Ctx &c, const std::vector<Op> &h, const std::string &key, const std::string &msg)
{
  if (g_mute_reports())
    return;
  vf::Arena::Pause p;
  vf::finding(key, *c.spec_text + " | " + hist_txt(h), msg);
}

static Qe to_qe(const inf_rational &v)
{
  rational r = v.get_rational(), e = v.get_infinitesimal();
  if (is_infinite(r)) // +-inf: an infinitesimal part carries no information (same extended real)
    return Qe(Q(r.numerator(), r.denominator()));
  return Qe(Q(r.numerator(), r.denominator()), Q(e.numerator(), e.denominator()));
}
static std::string qes(const Qe &q) { return ref::str(q); }

// asserted theory atoms -> reference constraint systems
static fm::Sys lra_asserted(const Spec &s, const Net &n, bool *any = nullptr)
{
  fm::Sys sys;
  for (size_t i = 0; i < s.la.size(); ++i)
  {
    lbool v = n.sat.value(n.slot[n.la_slot0 + i]);
    if (v == Undefined)
      continue;
    sys.push_back(la_row(s.la[i], v == True));
    if (any)
      *any = true;
  }
  return sys;
}
static std::vector<fw::Edge> dl_asserted(const std::vector<DAtom> &atoms, const Net &n, int slot0, bool integer)
{
  std::vector<fw::Edge> es;
  for (size_t i = 0; i < atoms.size(); ++i)
  {
    lbool v = n.sat.value(n.slot[slot0 + i]);
    if (v != Undefined)
      es.push_back(d_edge(atoms[i], v == True, integer));
  }
  return es;
}

// ---- C09: values are a model, bounds contain the solutions, rows hold ------------------------------
static void oracle_lra(const Ctx &c, const Net &n, const std::vector<Op> &h, bool last_ok)
{
  const Spec &s = *c.spec;
  if (!n.lra || !last_ok)
    return;
  lra_theory &th = *n.lra;
  fm::Sys sys = lra_asserted(s, n);
  bool feas = fm::feasible(sys, (size_t)s.nlra);
  if (!feas)
  {
    report(c, h, "C09:infeasible-set-standing", "the call succeeded but the asserted linear constraints are infeasible over the reals");
    return;
  }
  // every asserted constraint holds on the reported values (strict ones through eps)
  std::vector<Qe> xv;
  for (auto v : n.lra_vars)
    xv.push_back(to_qe(th.value(v)));
  for (size_t i = 0; i < s.la.size(); ++i)
  {
    lbool v = n.sat.value(n.slot[n.la_slot0 + i]);
    if (v == Undefined)
      continue;
    fm::Row r = la_row(s.la[i], v == True);
    Qe lhs(Q(0));
    for (size_t j = 0; j < r.a.size(); ++j)
      lhs = lhs + xv[j] * r.a[j];
    bool holds = r.strict ? lhs < Qe(r.b) : lhs <= Qe(r.b);
    if (!holds)
    {
      report(c, h, std::string("C09:value-violates-") + (r.strict ? "strict" : "nonstrict") + "-constraint", "atom " + std::to_string(i) + (v == True ? " (true)" : " (false)") + ": lhs value " + qes(lhs) + " vs bound " + qtxt(r.b));
      return;
    }
  }
  // tableau rows: x_basic = row(values)
  for (auto &[bv, row] : th.tableau)
  {
    Qe rhs = to_qe(inf_rational(row->l.known_term));
    for (auto &[v, cf] : row->l.vars)
      rhs = rhs + to_qe(th.value(v)) * Q(cf.numerator(), cf.denominator());
    if (rhs != to_qe(th.value(bv)))
    {
      report(c, h, "C09:row-equation-broken", "basic x" + std::to_string(bv) + " = " + qes(to_qe(th.value(bv))) + " but its row evaluates to " + qes(rhs));
      return;
    }
  }
  // lb <= value <= ub for every variable, and [lb,ub] contains every real solution of the user variables
  for (size_t v = 0; v < th.vals.size(); ++v)
  {
    Qe lb = to_qe(th.lb(v)), ub = to_qe(th.ub(v)), val = to_qe(th.value(v));
    if (val < lb || val > ub)
    {
      report(c, h, "C09:value-outside-bounds", "x" + std::to_string(v) + " = " + qes(val) + " not in [" + qes(lb) + ", " + qes(ub) + "]");
      return;
    }
  }
  for (size_t j = 0; j < n.lra_vars.size(); ++j)
  {
    std::vector<Q> obj(s.nlra, Q(0));
    obj[j] = Q(1);
    fm::Interval iv = fm::range(sys, (size_t)s.nlra, obj, Q(0));
    Qe lb = to_qe(th.lb(n.lra_vars[j])), ub = to_qe(th.ub(n.lra_vars[j]));
    if (lb > iv.lo || ub < iv.hi)
    {
      report(c, h, "C09:bounds-exclude-a-solution", "x" + std::to_string(j) + " bounds [" + qes(lb) + ", " + qes(ub) + "] but solutions range over [" + qes(iv.lo) + ", " + qes(iv.hi) + "]");
      return;
    }
  }
}

// ---- C10: distances exact, decided atoms propagated ---------------------------------------------
template <class TH>
static void oracle_dl_one(const Ctx &c, const Net &n, const std::vector<Op> &h, bool last_ok, TH &th, const std::vector<DAtom> &atoms, int slot0, size_t npts, bool integer, const char *nm)
{
  if (!last_ok)
    return;
  auto es = dl_asserted(atoms, n, slot0, integer);
  fw::Closure cl = fw::close(npts, es);
  if (cl.negative_cycle)
  {
    report(c, h, std::string("C10:") + nm + ":negative-cycle-standing", "the call succeeded but the asserted difference constraints contain a negative cycle");
    return;
  }
  for (size_t i = 0; i < npts; ++i)
    for (size_t j = 0; j < npts; ++j)
    {
      Qe got;
      if constexpr (std::is_same<TH, idl_theory>::value || std::is_base_of<idl_theory, TH>::value)
      {
        I d = th._dists[i][j];
        got = d == idl_theory::inf() ? Qe(Q::inf(1)) : Qe(Q(d));
      }
      else
        got = to_qe(th._dists[i][j]);
      if (got != cl.d[i][j])
      {
        report(c, h, std::string("C10:") + nm + (got < cl.d[i][j] ? ":distance-too-tight" : ":distance-too-loose"), "dist[" + std::to_string(i) + "][" + std::to_string(j) + "] = " + qes(got) + ", tightest implied = " + qes(cl.d[i][j]));
        return;
      }
    }
  // undecided atoms that the closure decides must have been propagated
  for (size_t i = 0; i < atoms.size(); ++i)
  {
    lit l = n.slot[slot0 + i];
    if (n.sat.value(l) != Undefined)
      continue;
    const DAtom &a = atoms[i];
    bool ent_true = cl.d[a.from][a.to] <= Qe(a.d, Q(a.e));
    Qe back = cl.d[a.to][a.from];
    bool ent_false = !back.r.is_inf() && (back + Qe(a.d, Q(a.e))) < Qe(Q(0));
    if (ent_true || ent_false)
    {
      report(c, h, std::string("C10:") + nm + ":decided-atom-not-propagated", "atom " + std::to_string(i) + " (to-from<=" + qtxt(a.d) + ") is " + (ent_true ? "entailed" : "refuted") + " by the distances but still undefined");
      return;
    }
  }
}
static void oracle_dl(const Ctx &c, const Net &n, const std::vector<Op> &h, bool last_ok)
{
  const Spec &s = *c.spec;
  if (n.idl)
    oracle_dl_one(c, n, h, last_ok, *n.idl, s.ia, n.ia_slot0, (size_t)s.nidl + 1, true, "idl");
  if (n.rdl)
    oracle_dl_one(c, n, h, last_ok, *n.rdl, s.ra, n.ra_slot0, (size_t)s.nrdl + 1, false, "rdl");
}

// ---- C14: object variables -------------------------------------------------------------------------
static void oracle_ov(const Ctx &c, const Net &n, const std::vector<Op> &h, bool last_ok)
{
  const Spec &s = *c.spec;
  if (!n.ov || !last_ok)
    return;
  for (size_t v = 0; v < n.ov_vars.size(); ++v)
  {
    auto dom = n.ov->value(n.ov_vars[v]);
    unsigned got = 0, exp = 0;
    for (auto *x : dom)
      got |= 1u << static_cast<Val *>(x)->id;
    for (int val = 0; val < s.nval; ++val)
      if ((n.ov_dom[v] & (1u << val)) && n.sat.value(n.slot[n.ov_slot[v][val]]) != False)
        exp |= 1u << val;
    if (got != exp)
    {
      report(c, h, "C14:reported-domain-differs-from-unexcluded-values", "variable " + std::to_string(v) + ": value() = mask " + std::to_string(got) + ", values whose literal is not false = mask " + std::to_string(exp));
      return;
    }
  }
}

// construction: in every model of the database each variable has exactly one allowed value, every
// allowed value is possible, and an equality literal is true iff both variables take the same value
static void oracle_ov_construction(const Ctx &c, const Net &n0, const std::vector<Op> &h)
{
  const Spec &s = *c.spec;
  int k = (int)n0.sat.assigns.size();
  TT F = nr::cnf_tt(k, nr::read_cnf(n0.sat));
  for (size_t v = 0; v < s.ov.size(); ++v)
  {
    if (s.ov[v].lazy)
      continue; // no exactly-one clause by construction
    std::vector<lit> ls;
    for (int val = 0; val < s.nval; ++val)
      if (s.ov[v].dom & (1u << val))
        ls.push_back(n0.slot[n0.ov_slot[v][val]]);
    TT one(k, false);
    for (size_t i = 0; i < ls.size(); ++i)
    {
      TT t = nr::col(k, ls[i]);
      for (size_t j = 0; j < ls.size(); ++j)
        if (j != i)
          t &= ~nr::col(k, ls[j]);
      one |= t;
      if ((F & nr::col(k, ls[i])).none())
      {
        report(c, h, "C14:allowed-value-impossible", "variable " + std::to_string(v) + ": no model of the database gives it its allowed value #" + std::to_string(i));
        return;
      }
    }
    TT bad = F & ~one;
    if (!bad.none())
    {
      report(c, h, "C14:not-exactly-one-value", "variable " + std::to_string(v) + " has zero or several values in the model " + nr::assignment_str(bad.first(), k));
      return;
    }
  }
  for (size_t e = 0; e < s.oe.size(); ++e)
  {
    int a = s.oe[e].first, b = s.oe[e].second;
    if (s.ov[a].lazy || s.ov[b].lazy)
      continue; // "same value" presupposes exactly one value per variable
    TT same(k, false);
    for (int val = 0; val < s.nval; ++val)
      if ((s.ov[a].dom & (1u << val)) && (s.ov[b].dom & (1u << val)))
        same |= nr::col(k, n0.slot[n0.ov_slot[a][val]]) & nr::col(k, n0.slot[n0.ov_slot[b][val]]);
    TT bad = F & (nr::col(k, n0.slot[n0.oe_slot[e]]) ^ same);
    if (!bad.none())
    {
      bool eq_true = !(bad & nr::col(k, n0.slot[n0.oe_slot[e]])).none();
      report(c, h, std::string("C14:equality-literal-") + (eq_true ? "true-with-different-values" : "false-with-same-value"), "equality #" + std::to_string(e) + " disagrees with the values in the model " + nr::assignment_str(bad.first(), k));
      return;
    }
  }
}

// ---- canonical observable state (for C08 and for state counting) -------------------------------------
static std::string theory_obs(const Net &n)
{
  std::string o;
  if (n.lra)
    for (size_t v = 0; v < n.lra->vals.size(); ++v)
      o += "x" + std::to_string(v) + "[" + qes(to_qe(n.lra->lb(v))) + "," + qes(to_qe(n.lra->ub(v))) + "]";
  if (n.idl)
    for (size_t i = 0; i < n.idl->size(); ++i)
      for (size_t j = 0; j < n.idl->size(); ++j)
        o += "i" + std::to_string(n.idl->_dists[i][j] == idl_theory::inf() ? -999999 : n.idl->_dists[i][j]) + ",";
  if (n.rdl)
    for (size_t i = 0; i < n.rdl->size(); ++i)
      for (size_t j = 0; j < n.rdl->size(); ++j)
        o += "r" + qes(to_qe(n.rdl->_dists[i][j])) + ",";
  if (n.ov)
    for (auto v : n.ov_vars)
    {
      unsigned m = 0;
      for (auto *x : n.ov->value(v))
        m |= 1u << static_cast<Val *>(x)->id;
      o += "o" + std::to_string(m);
    }
  return o;
}
static std::string assigns_str(const sat_core &s)
{
  std::string o;
  for (size_t v = 1; v < s.assigns.size(); ++v)
    o += s.assigns[v] == True ? 'T' : s.assigns[v] == False ? 'F'
                                                             : 'U';
  return o;
}

// =================================================================================================
// executing one history
// =================================================================================================
struct Exec
{
  bool alive = true; // network still consistent
  bool last_ret = true;
};

static bool apply_op(Net &n, const Op &o)
{
  switch (o.kind)
  {
  case 'a':
    return n.sat.assume(n.L(o.args[0]));
  case 'p':
    n.sat.pop();
    return true;
  case 'n':
    return n.sat.next();
  case 'r':
    return n.sat.propagate();
  case 'k':
  {
    std::vector<lit> ls;
    for (int a : o.args)
      ls.push_back(n.L(a));
    return n.sat.check(ls);
  }
  case 'c':
  {
    std::vector<lit> ls;
    for (int a : o.args)
      ls.push_back(n.L(a));
    return n.sat.new_clause(ls) && n.sat.propagate();
  }
  case 'v':
  { // a variable over the same values, controlled by the value literals of variable args[0]; no clause is created, so
    // the call is legal below root level
    size_t par = (size_t)o.args[0];
    std::vector<lit> dl;
    std::vector<var_value *> dv;
    for (size_t val = 0; val < n.vals.size(); ++val)
      if (n.ov_dom[par] & (1u << val))
      {
        dl.push_back(n.ov->allows(n.ov_vars[par], *n.vals[val]));
        dv.push_back(n.vals[val].get());
      }
    n.ov_vars.push_back(n.ov->new_var(dl, dv));
    n.ov_dom.push_back(n.ov_dom[par]);
    n.ov_slot.push_back(n.ov_slot[par]);
    return true;
  }
  default:
    return n.sat.simplify_db();
  }
}

// Model set bookkeeping along a history: M = base /\ added clauses /\ no-goods of next()
struct Models
{
  TT m;
};

static TT decisions_tt(int k, const sat_core &s)
{
  TT d(k, true);
  for (auto &l : s.decisions)
    d &= nr::col(k, l);
  return d;
}

// runs history h on a fresh network; oracles are evaluated after the LAST op only (prefixes were
// judged when they were complete histories), except the theory-log oracle which needs the last op's log.
// Returns false if the history ended in a (legitimately or not) inconsistent network.
struct RunOut
{
  bool alive = true;
  uint64_t state_hash = 0;
  std::vector<Op> enabled;
};

static void enabled_ops(const Spec &s, const Net &n, const std::string &alphabet, std::vector<Op> &out, const std::vector<std::vector<int>> &clause_pool)
{
  int nslots = (int)n.slot.size() - 1;
  bool root = n.sat.root_level();
  for (char a : alphabet)
    switch (a)
    {
    case 'a':
      for (int sl = 1; sl <= nslots; ++sl)
      {
        if (n.sat.value(n.slot[sl]) != Undefined)
          continue;
        // a literal shared by several slots is offered once
        bool dup = false;
        for (int t = 1; t < sl; ++t)
          dup |= variable(n.slot[t]) == variable(n.slot[sl]);
        if (dup)
          continue;
        out.push_back(Op{'a', {sl}});
        out.push_back(Op{'a', {-sl}});
      }
      break;
    case 'A': // decisions on positive literals only
      for (int sl = 1; sl <= nslots; ++sl)
        if (n.sat.value(n.slot[sl]) == Undefined)
          out.push_back(Op{'a', {sl}});
      break;
    case 'p':
      if (!root)
        out.push_back(Op{'p', {}});
      break;
    case 'n':
      if (!root)
        out.push_back(Op{'n', {}});
      break;
    case 'r':
      out.push_back(Op{'r', {}});
      break;
    case 'k':
    {
      std::vector<int> und;
      for (int sl = 1; sl <= nslots && und.size() < 3; ++sl)
        if (n.sat.value(n.slot[sl]) == Undefined)
          und.push_back(sl);
      for (size_t i = 0; i < und.size(); ++i)
        for (size_t j = i + 1; j < und.size(); ++j)
        {
          out.push_back(Op{'k', {und[i], und[j]}});
          out.push_back(Op{'k', {und[i], -und[j]}});
          out.push_back(Op{'k', {-und[j], und[i]}});
          out.push_back(Op{'k', {-und[i], -und[j]}});
        }
      break;
    }
    case 'c':
      if (root)
        for (auto &c : clause_pool)
          out.push_back(Op{'c', c});
      break;
    case 's':
      if (root)
        out.push_back(Op{'s', {}});
      break;
    case 'v': // once per history, from every variable of the network
      if (n.ov && n.ov_vars.size() == s.ov.size())
        for (size_t v = 0; v < s.ov.size(); ++v)
          out.push_back(Op{'v', {(int)v}});
      break;
    }
}

static std::vector<std::vector<int>> g_clause_pool; // for the 'c' op
static std::string g_alphabet = "apnrks";

static void run_history(const Ctx &c, const std::vector<Op> &h, RunOut &out, bool want_enabled)
{
  const Spec &s = *c.spec;
  vf::Arena::Scope arena;
  TheoryLog tlog;
  Net n;
  build(n, s);
  NetRef &R = *c.ref;
  if (R.k == 0)
  {
    vf::Arena::Pause p;
    make_ref(R, s, n);
    if (R.uses_db)
    {
      // base includes the database as built (constructs); taken on a network that was NOT propagated
      Net n2;
      build(n2, s, false);
      R.db0 = nr::cnf_tt(R.k, nr::read_cnf(n2.sat));
    }
  }
  int k = R.k;
  TT M = R.theory & R.spec;
  if (R.uses_db)
    M &= R.db0;
  bool alive = n.ok;
  bool last_ret = n.ok;
  size_t hl = h.size();
  if (h.empty() && (g_oracles & O_OV))
  {
    Net n2;
    build(n2, s, false);
    oracle_ov_construction(c, n2, h);
  }
  if (h.empty() && !n.ok && (g_oracles & O_ENTAIL) && !M.none())
    report(c, h, "C07:construction-reports-inconsistency-but-satisfiable", "new_clause/propagate returned false while building the network, yet the clauses and theories have a model");
  for (size_t i = 0; i < hl && alive; ++i)
  {
    const Op &o = h[i];
    bool last = (i + 1 == hl);
    TT before_D(k, true);
    std::vector<lit> chk_lits;
    if (o.kind == 'a')
      before_D = decisions_tt(k, n.sat);
    if (o.kind == 'k')
    {
      before_D = decisions_tt(k, n.sat);
      for (int a : o.args)
        chk_lits.push_back(n.L(a));
    }
    if (o.kind == 'n')
    { // the no-good of next() is search control, not a consequence
      std::vector<lit> ng;
      for (auto &l : n.sat.decisions)
        ng.push_back(!l);
      M &= nr::clause_tt(k, ng);
    }
    if (o.kind == 'c')
    {
      std::vector<lit> ls;
      for (int a : o.args)
        ls.push_back(n.L(a));
      M &= nr::clause_tt(k, ls);
    }
    if (last)
      g_tlog = &tlog;
    std::vector<lit> decisions_before = n.sat.decisions;
    bool ret = apply_op(n, o);
    g_tlog = nullptr;
    last_ret = ret;
    if (!ret && o.kind != 'k')
      alive = false;
    if (!last)
      continue;
    // ---------------- oracles on the last step ----------------
    if ((g_oracles & O_ENTAIL) && o.kind == 'k' && !n.sat.inconsistent)
    { // check() is a query: it must not leave any of its own assumptions standing. The decisions afterwards have to be a
      // prefix of the caller's (a learnt unit clause legitimately backjumps below the caller's level and drops decisions)
      bool same = n.sat.decisions.size() <= decisions_before.size();
      for (size_t di = 0; same && di < n.sat.decisions.size(); ++di)
        same = n.sat.decisions[di] == decisions_before[di];
      if (!same)
      {
        std::string ds;
        for (auto &l : n.sat.decisions)
          ds += nr::ls(l) + " ";
        report(c, h, "C07:check-left-decisions-standing", "check() returned " + std::string(ret ? "true" : "false") + " and left the decisions [ " + ds + "] standing; the caller had " + std::to_string(decisions_before.size()) + " decision(s)");
      }
    }
    if (g_oracles & O_ENTAIL)
    {
      if (!ret)
      {
        if (o.kind == 'k')
        {
          TT t = M & before_D;
          for (auto &l : chk_lits)
            t &= nr::col(k, l);
          if (!t.none())
            report(c, h, "C07:check-false-but-satisfiable", "check() returned false although clauses, theories, standing decisions and the given assumptions have the model " + nr::assignment_str(t.first(), k));
        }
        else if (!M.none())
          report(c, h, std::string("C07:") + (o.kind == 'a' ? "assume" : o.kind == 'n' ? "next"
                                                                  : o.kind == 'r'   ? "propagate"
                                                                  : o.kind == 'c'   ? "new_clause"
                                                                                    : "simplify_db") +
                              "-false-but-satisfiable",
                 "the call reported inconsistency although the clauses and theories have the model " + nr::assignment_str(M.first(), k));
      }
      if (alive && o.kind == 'a')
      { // a refused decision (conflict + backjump) means clauses, theories, earlier decisions and p are unsatisfiable
        lit p = n.L(o.args[0]);
        bool standing = !n.sat.decisions.empty() && n.sat.decisions.back() == p && n.sat.value(p) == True;
        if (!standing)
        {
          TT t = M & before_D & nr::col(k, p);
          if (!t.none())
            report(c, h, "C07:decision-refused-but-satisfiable", "assume(" + nr::ls(p) + ") was undone by conflict analysis although clauses, theories and the standing decisions plus it have the model " + nr::assignment_str(t.first(), k));
        }
      }
      if (alive)
      {
        TT D = decisions_tt(k, n.sat);
        TT MD = M & D;
        // (1) every reported value is a consequence of M and the standing decisions
        for (size_t v = 1; v < n.sat.assigns.size(); ++v)
          if (n.sat.assigns[v] != Undefined)
          {
            lit l(v, n.sat.assigns[v] == True);
            TT bad = MD & ~nr::col(k, l);
            if (!bad.none())
            {
              std::string kind = n.sat.level[v] == 0 && !n.sat.root_level() ? "root-level" : "implied";
              report(c, h, "C07:value-not-entailed", "literal " + nr::ls(l) + " is reported true (level " + std::to_string(n.sat.level[v]) + ") but the model " + nr::assignment_str(bad.first(), k) + " of clauses+theories+decisions falsifies it");
              break;
            }
          }
        // (2) every clause in the database and every level-0 assignment is a consequence of M
        for (auto *cc : n.sat.constrs)
        {
          auto &ls = static_cast<clause *>(cc)->lits;
          TT bad = M & ~nr::clause_tt(k, ls);
          if (!bad.none())
          {
            report(c, h, "C07:recorded-clause-not-entailed", "clause " + nr::cs(ls) + " is in the database but the model " + nr::assignment_str(bad.first(), k) + " of the problem falsifies it");
            break;
          }
        }
        for (size_t v = 1; v < n.sat.assigns.size(); ++v)
          if (n.sat.assigns[v] != Undefined && n.sat.level[v] == 0)
          {
            lit l(v, n.sat.assigns[v] == True);
            TT bad = M & ~nr::col(k, l);
            if (!bad.none())
            {
              report(c, h, "C07:root-assignment-not-entailed", "literal " + nr::ls(l) + " is assigned at level 0 but the model " + nr::assignment_str(bad.first(), k) + " of the problem falsifies it");
              break;
            }
          }
        // (4) a complete assignment must be a model
        bool complete = true;
        for (size_t v = 1; v < n.sat.assigns.size(); ++v)
          complete &= n.sat.assigns[v] != Undefined;
        if (complete && ret)
        {
          TT a(k, true);
          for (size_t v = 0; v < n.sat.assigns.size(); ++v)
            a &= nr::col(k, lit(v, n.sat.assigns[v] == True));
          if ((a & M).none())
            report(c, h, "C07:complete-assignment-is-not-a-model", "every variable is assigned (" + assigns_str(n.sat) + ") and the call succeeded, but the assignment violates a clause, a no-good or the theories");
        }
      }
    }
    if (g_oracles & O_THEORY)
      for (auto &[what, cl] : tlog.items)
      {
        const TT &T = what[0] == 'l' ? R.lra_t : what[0] == 'i' ? R.idl_t
                                                                : R.rdl_t;
        TT bad = T & ~TT::var(k, 0) & ~nr::clause_tt(k, cl);
        if (!bad.none())
        {
          std::string prop = (what[0] == 'l') ? "C09" : "C10";
          report(c, h, prop + ":" + what + "-not-valid", what + " " + nr::cs(cl) + " is not a consequence of the theory: the theory-consistent assignment " + nr::assignment_str(bad.first(), k) + " falsifies it");
          break;
        }
      }
    if (g_oracles & O_LRA)
      oracle_lra(c, n, h, alive && ret);
    if (g_oracles & O_DL)
      oracle_dl(c, n, h, alive && (ret || o.kind == 'k'));
    if (g_oracles & O_OV)
      oracle_ov(c, n, h, alive);
  }
  out.alive = alive;
  if (alive)
  {
    std::string st = assigns_str(n.sat) + "|" + std::to_string(n.sat.decision_level()) + "|" + theory_obs(n) + "|";
    std::vector<std::string> cls;
    for (auto *cc : n.sat.constrs)
    {
      auto ls = static_cast<clause *>(cc)->lits;
      std::sort(ls.begin(), ls.end());
      cls.push_back(nr::cs(ls));
    }
    std::sort(cls.begin(), cls.end());
    for (auto &x : cls)
      st += x;
    vf::Arena::Pause p;
    out.state_hash = vf::fnv(st);
    if (want_enabled)
      enabled_ops(s, n, s.alphabet.empty() ? g_alphabet : s.alphabet, out.enabled, g_clause_pool);
  }
}

// ---- C08: differential undo oracle -------------------------------------------------------------------
// After history h: take the literals currently true (trail order), assume them on a fresh network
// and require identical theory observables.
static void oracle_undo(const Ctx &c, const std::vector<Op> &h)
{
  const Spec &s = *c.spec;
  std::string obs1, asg1;
  std::vector<int> trail_slots; // trail as (sat var, sign)
  std::vector<std::pair<var, bool>> trail;
  size_t lvl = 0;
  {
    vf::Arena::Scope arena;
    Net n;
    build(n, s);
    bool alive = n.ok;
    for (size_t i = 0; i < h.size() && alive; ++i)
    {
      bool r = apply_op(n, h[i]);
      if (!r && h[i].kind != 'k')
        alive = false;
    }
    if (!alive)
      return;
    vf::Arena::Pause p;
    obs1 = theory_obs(n);
    asg1 = assigns_str(n.sat);
    lvl = n.sat.decision_level();
    for (auto &l : n.sat.trail)
      trail.push_back({variable(l), sign(l)});
  }
  std::string obs2, asg2;
  bool ok2 = true;
  {
    vf::Arena::Scope arena;
    Net n;
    build(n, s);
    if (!n.ok)
      return;
    for (auto &[v, sg] : trail)
    {
      lit l(v, sg);
      if (n.sat.value(l) == True)
        continue;
      if (n.sat.value(l) == False || !n.sat.assume(l) || n.sat.value(l) != True)
      {
        ok2 = false;
        break;
      }
    }
    vf::Arena::Pause p;
    obs2 = theory_obs(n);
    asg2 = assigns_str(n.sat);
  }
  vf::Arena::Pause p;
  if (!ok2)
  {
    vf::count("undo_reference_rejected");
    // the literals the network reports as jointly true cannot even be asserted together on a fresh network
    report(c, h, "C08:standing-assignment-not-reproducible", "the literals reported true (" + asg1 + ") are refused when asserted in trail order on a fresh copy of the network");
    return;
  }
  if (asg1 != asg2)
  {
    vf::count("undo_reference_propagated_more");
    // The fresh network derived additional literals from the same true literals. With LRA atoms this can be benign (bound
    // propagation is incomplete and depends on the order of assertion); unit propagation over clauses, difference logic
    // and object variables is a fixpoint of the assigned literals, so there a literal missing after the history means
    // that undoing decisions left the network unable to infer what a network without that past infers.
    if (s.nlra == 0)
      report(c, h, std::string("C08:") + (lvl == 0 ? "root-" : "") + "consequence-missing-after-undo", "after the history the network reports " + asg1 + " but a fresh network in which the same true literals are asserted derives " + asg2);
    return; // bounds are not comparable
  }
  vf::count("undo_compared");
  if (obs1 != obs2)
    report(c, h, std::string("C08:") + (lvl == 0 ? "root-state" : "state") + "-differs-from-fresh-network", "after the history the theory observables are\n  " + obs1 + "\nbut a fresh network with the same true literals has\n  " + obs2);
}

// =================================================================================================
// exploration
// =================================================================================================
static int g_depth = 4;
struct Counters
{
  uint64_t histories = 0, steps = 0;
} g_cnt;

static bool g_mute = false;
static bool g_mute_reports() { return g_mute; }
// Work splitting: a unit is (network, d_0 .. d_{P-1}); at depth i < P only the child with index d_i
// is followed, and a node at depth i < P is judged only by the unit whose digits d_i.. are all 0.
static int g_split = 0;
static const int SPLIT_B = 40;
static std::vector<int> g_digits;
static void explore(const Ctx &c, std::vector<Op> &h)
{
  size_t d = h.size();
  bool owned = true;
  for (size_t i = d; i < g_digits.size(); ++i)
    owned &= g_digits[i] == 0;
  std::string txt = *c.spec_text + " | " + hist_txt(h);
  bool judged = false;
  vf::State &S = vf::st();
  if (owned)
  {
    judged = vf::begin_case(txt);
    if (!judged)
    {
      if (S.only_case == 0 && vf::is_dead_case())
        return; // a case that killed an earlier worker: it has no successors
      if (S.only_case && S.case_no > S.only_case)
        return; // confirm mode: past the target
      // otherwise re-run silently, only to learn the successors
    }
  }
  RunOut out;
  g_mute = !judged;
  if (!judged)
    vf::note("(silent) " + txt);
  run_history(c, h, out, (int)h.size() < g_depth);
  if (judged && (g_oracles & O_UNDO))
    oracle_undo(c, h);
  g_mute = false;
  if (judged)
  {
    vf::end_case();
    ++g_cnt.histories;
    g_cnt.steps += h.size();
    if (out.alive)
      vf::distinct("states", out.state_hash);
    if ((g_cnt.histories & 0x3ffff) == 7)
      vf::sample(txt);
  }
  if (!out.alive || (int)h.size() >= g_depth)
    return;
  if (d < g_digits.size())
  {
    if ((size_t)g_digits[d] < out.enabled.size())
    {
      h.push_back(out.enabled[g_digits[d]]);
      explore(c, h);
      h.pop_back();
    }
    if (out.enabled.size() > (size_t)SPLIT_B)
    {
      std::fprintf(stderr, "netmc: branching %zu exceeds SPLIT_B\n", out.enabled.size());
      std::abort();
    }
    return;
  }
  for (auto &o : out.enabled)
  {
    h.push_back(o);
    explore(c, h);
    h.pop_back();
  }
}

// =================================================================================================
// network families
// =================================================================================================
static std::vector<Spec> g_specs;

static std::vector<std::vector<int>> clause_pool(int nslots, bool three)
{
  std::vector<std::vector<int>> pool;
  for (int a = 1; a <= nslots; ++a)
    for (int b = a + 1; b <= nslots; ++b)
      for (int sa = -1; sa <= 1; sa += 2)
        for (int sb = -1; sb <= 1; sb += 2)
          pool.push_back({sa * a, sb * b});
  if (three)
    for (int a = 1; a <= nslots; ++a)
      for (int b = a + 1; b <= nslots; ++b)
        for (int c = b + 1; c <= nslots; ++c)
          for (int m = 0; m < 8; ++m)
            pool.push_back({(m & 1 ? -a : a), (m & 2 ? -b : b), (m & 4 ? -c : c)});
  return pool;
}
template <class F>
static void subsets(size_t n, size_t kmax, F f)
{
  std::vector<size_t> idx;
  std::function<void(size_t)> rec = [&](size_t start)
  {
    f(idx);
    if (idx.size() == kmax)
      return;
    for (size_t i = start; i < n; ++i)
    {
      idx.push_back(i);
      rec(i + 1);
      idx.pop_back();
    }
  };
  rec(0);
}

static LAtom LA(std::vector<Q> c, int op, Q k) { return LAtom{c, op, k}; }

static void families(const std::string &prop, const std::string &tier)
{
  bool th = tier == "thorough";
  if (prop == "C07")
  {
    g_oracles = O_ENTAIL | O_THEORY;
    g_alphabet = "apnrkcs";
    g_depth = th ? 5 : 4;
    // (S) pure SAT: all subsets of <= 2 (3) clauses from the 20-clause pool over 3 variables
    auto pool = clause_pool(3, true);
    g_clause_pool = {{1, 2}, {-1, 3}, {-2, -3}};
    subsets(pool.size(), th ? 3 : 2, [&](const std::vector<size_t> &idx)
            {
              Spec s;
              s.nb = 3;
              for (auto i : idx)
                s.cl.push_back(pool[i]);
              if (idx.size() == 3)
                s.depth = 4;
              g_specs.push_back(s); });
    // (L) a theory block whose atoms appear in the clauses: 1 boolean + 4 LRA atoms over 2 reals
    {
      std::vector<LAtom> atoms = {LA({1, 0}, 0, 1), LA({1, 0}, 2, 2), LA({1, 1}, 0, 2), LA({0, 1}, 3, 1)};
      auto p2 = clause_pool(5, false);
      subsets(p2.size(), th ? 2 : 1, [&](const std::vector<size_t> &idx)
              {
                Spec s;
                s.nb = 1;
                s.nlra = 2;
                s.la = atoms;
                for (auto i : idx)
                  s.cl.push_back(p2[i]);
                if (idx.size() == 2)
                  s.depth = 4;
                g_specs.push_back(s); });
    }
    // (I) 1 boolean + 4 IDL atoms over 3 points (a 3-cycle and a repeated pair)
    {
      std::vector<DAtom> atoms = {{1, 2, Q(-1)}, {2, 3, Q(-1)}, {3, 1, Q(1)}, {1, 2, Q(1)}};
      auto p2 = clause_pool(5, false);
      subsets(p2.size(), th ? 2 : 1, [&](const std::vector<size_t> &idx)
              {
                Spec s;
                s.nb = 1;
                s.nidl = 3;
                s.ia = atoms;
                for (auto i : idx)
                  s.cl.push_back(p2[i]);
                if (idx.size() == 2)
                  s.depth = 4;
                g_specs.push_back(s);
                Spec r = s;
                r.nidl = 0;
                r.ia.clear();
                r.nrdl = 3;
                r.ra = atoms;
                g_specs.push_back(r); });
    }
    // (F) fan-out (quick tier only; the thorough tier has every 2-subset of the clause pool anyway): two binary clauses
    // with the same trigger literal, (!t | u) and (!t | v), over each theory block, so that ONE assignment puts several
    // theory literals into the propagation queue at once and a theory conflict can arrive while others are pending
    if (!th)
    {
      std::vector<LAtom> latoms = {LA({1, 0}, 0, 1), LA({1, 0}, 2, 2), LA({1, 1}, 0, 2), LA({0, 1}, 3, 1)};
      std::vector<DAtom> datoms = {{1, 2, Q(-1)}, {2, 3, Q(-1)}, {3, 1, Q(1)}, {1, 2, Q(1)}};
      for (int t = 1; t <= 5; ++t)
        for (int st = -1; st <= 1; st += 2)
          for (int u = 1; u <= 5; ++u)
            for (int su = -1; su <= 1; su += 2)
              for (int v = u + 1; v <= 5; ++v)
                for (int sv = -1; sv <= 1; sv += 2)
                {
                  if (u == t || v == t)
                    continue;
                  std::vector<std::vector<int>> cls = {{-st * t, su * u}, {-st * t, sv * v}};
                  Spec l;
                  l.nb = 1;
                  l.nlra = 2;
                  l.la = latoms;
                  l.cl = cls;
                  l.depth = 3;
                  g_specs.push_back(l);
                  Spec i;
                  i.nb = 1;
                  i.nidl = 3;
                  i.ia = datoms;
                  i.cl = cls;
                  i.depth = 3;
                  g_specs.push_back(i);
                  Spec r = i;
                  r.nidl = 0;
                  r.ia.clear();
                  r.nrdl = 3;
                  r.ra = datoms;
                  g_specs.push_back(r);
                }
    }
  }
  else if (prop == "C09")
  {
    g_oracles = O_LRA | O_THEORY | O_ENTAIL;
    g_alphabet = "apn";
    g_depth = th ? 5 : 4;
    std::vector<std::vector<Q>> exprs = {{1, 0}, {0, 1}, {1, 1}, {1, -1}};
    std::vector<Q> ks = {Q(0), Q(1)};
    if (th)
    {
      exprs.push_back({2, -1});
      exprs.push_back({1, 2});
      ks.push_back(Q(-1));
      ks.push_back(Q(1, 2));
    }
    std::vector<LAtom> pool;
    for (auto &e : exprs)
      for (int op = 0; op < 4; ++op)
        for (auto &k : ks)
          pool.push_back(LA(e, op, k));
    subsets(pool.size(), 3, [&](const std::vector<size_t> &idx)
            {
              if (idx.size() != 3)
                return;
              Spec s;
              s.nlra = 2;
              for (auto i : idx)
                s.la.push_back(pool[i]);
              g_specs.push_back(s); });
    const size_t n_main = g_specs.size();
    // (H) half-integer constants: ALL 3-subsets of {x, y, x+y, x-y} x {<=, >=} x {1/2, 3/2}: values and bounds whose
    // denominators share a factor, so that updates and pivots add and subtract non-coprime fractions
    {
      std::vector<LAtom> hp;
      for (auto &e : exprs)
      {
        if (e.size() != 2 || (e[0] != Q(0) && e[0] != Q(1)) || (e[1] != Q(0) && e[1] != Q(1) && e[1] != Q(-1)))
          continue;
        for (int op : {0, 2})
          for (auto &k : {Q(1, 2), Q(3, 2)})
            hp.push_back(LA(e, op, k));
      }
      subsets(hp.size(), 3, [&](const std::vector<size_t> &idx)
              {
                if (idx.size() != 3)
                  return;
                Spec s;
                s.nlra = 2;
                for (auto i : idx)
                  s.la.push_back(hp[i]);
                s.depth = th ? 4 : 3;
                g_specs.push_back(s); });
    }
    // (F) fan-out: 1 boolean + 4 atoms and two binary clauses with the same trigger literal, so that one assignment
    // queues several theory literals (a conflict raised by propagate() arrives while others are pending)
    {
      std::vector<LAtom> latoms = {LA({1, 0}, 0, 1), LA({1, 0}, 2, 2), LA({1, 1}, 0, 2), LA({0, 1}, 3, 1)};
      for (int t = 1; t <= 5; ++t)
        for (int st = -1; st <= 1; st += 2)
          for (int u = 1; u <= 5; ++u)
            for (int su = -1; su <= 1; su += 2)
              for (int v = u + 1; v <= 5; ++v)
                for (int sv = -1; sv <= 1; sv += 2)
                {
                  if (u == t || v == t)
                    continue;
                  Spec l;
                  l.nb = 1;
                  l.nlra = 2;
                  l.la = latoms;
                  l.cl = {{-st * t, su * u}, {-st * t, sv * v}};
                  l.depth = th ? 4 : 3;
                  g_specs.push_back(l);
                }
    }
    // (B) boxes: ALL 4-subsets of a reduced pool (x, y, x-y against 0 and 1 with <= and >=), so that a row with
    // coefficients of both signs is propagated while BOTH bounds of one of its variables are finite and each of the
    // bounds involved has its own reason literal; same depth as the 3-atom networks (a bound tightened twice, one level popped,
    // then a lemma through the restored bound needs 4 steps: seed C09-4)
    {
      std::vector<LAtom> bp;
      for (auto &e : std::vector<std::vector<Q>>{{1, 0}, {0, 1}, {1, -1}})
        for (int op : {0, 2})
          for (auto &k : {Q(0), Q(1)})
            bp.push_back(LA(e, op, k));
      subsets(bp.size(), 4, [&](const std::vector<size_t> &idx)
              {
                if (idx.size() != 4)
                  return;
                Spec s;
                s.nlra = 2;
                for (auto i : idx)
                  s.la.push_back(bp[i]);
                s.depth = th ? 5 : 4;
                g_specs.push_back(s); });
    }
    // the special families first, the big pool last: under a deadline the run is cut off inside the pool, never before
    // a special family has been explored
    std::rotate(g_specs.begin(), g_specs.begin() + n_main, g_specs.end());
  }
  else if (prop == "C10")
  {
    g_oracles = O_DL | O_THEORY | O_ENTAIL;
    g_alphabet = "apn";
    g_depth = th ? 5 : 4;
    std::vector<DAtom> pool;
    std::vector<Q> ds = {Q(-1), Q(0), Q(1)};
    if (th)
    {
      ds.push_back(Q(-2));
      ds.push_back(Q(2));
    }
    for (size_t a = 0; a <= 3; ++a)
      for (size_t b = 0; b <= 3; ++b)
        if (a != b)
          for (auto &d : ds)
            pool.push_back(DAtom{a, b, d});
    subsets(pool.size(), 3, [&](const std::vector<size_t> &idx)
            {
              if (idx.size() != 3)
                return;
              // keep networks whose atoms interact: share a pair or form a path/cycle
              std::set<size_t> pts;
              for (auto i : idx)
              {
                pts.insert(pool[i].from);
                pts.insert(pool[i].to);
              }
              if (pts.size() > 3)
                return;
              Spec s;
              s.nidl = 3;
              for (auto i : idx)
                s.ia.push_back(pool[i]);
              g_specs.push_back(s);
              Spec r;
              r.nrdl = 3;
              for (auto i : idx)
                r.ra.push_back(pool[i]);
              g_specs.push_back(r); });
    const size_t n_main = g_specs.size();
    // (R) relaxation networks: two bounds on a direct edge, a two-hop path whose length lies between them, a reverse
    // edge and an atom it decides together with the direct edge; every single binary clause over the six atoms, so that
    // several constraints are asserted inside one decision level and retracted together. Decisions assert atoms only
    // (alphabet 'A' + pop), which keeps depth 5 (thorough 6) exhaustive.
    {
      std::vector<DAtom> atoms = {{1, 2, Q(4)}, {1, 2, Q(1)}, {1, 3, Q(1)}, {3, 2, Q(1)}, {2, 3, Q(-4)}, {1, 3, Q(0)}};
      auto p2 = clause_pool(6, false);
      for (auto &cl : p2)
      {
        if (cl.size() != 2)
          continue;
        Spec s;
        s.nidl = 3;
        s.ia = atoms;
        s.cl.push_back(cl);
        s.depth = th ? 6 : 5;
        s.alphabet = "Ap";
        g_specs.push_back(s);
        Spec r;
        r.nrdl = 3;
        r.ra = atoms;
        r.cl.push_back(cl);
        r.depth = s.depth;
        r.alphabet = "Ap";
        g_specs.push_back(r);
      }
    }
    // (S) strict bounds (rdl only): ALL 3-subsets of {to - from <= d, to - from < d} over 3 points, d in {0, 1}: bounds
    // with an infinitesimal part, asserted and negated (the negation of a strict bound is a non-strict one)
    {
      std::vector<DAtom> sp;
      for (size_t a = 1; a <= 3; ++a)
        for (size_t b = 1; b <= 3; ++b)
          if (a != b)
            for (auto d : {Q(0), Q(1)})
              for (int e : {0, -1})
              {
                DAtom x{a, b, d};
                x.e = e;
                sp.push_back(x);
              }
      subsets(sp.size(), 3, [&](const std::vector<size_t> &idx)
              {
                if (idx.size() != 3)
                  return;
                bool strict = false;
                for (auto i : idx)
                  strict = strict || sp[i].e != 0;
                if (!strict)
                  return; // covered by the main family
                Spec r;
                r.nrdl = 3;
                for (auto i : idx)
                  r.ra.push_back(sp[i]);
                r.depth = th ? 4 : 3;
                g_specs.push_back(r); });
    }
    // (C) chains over all 4 points: for EVERY ordering p0..p3 of the points the three unit edges p0->p1->p2->p3 and one
    // shortcut atom between the end points (implied, just not implied, or contradicting the chain): the incremental
    // update has to splice a new edge in front of / behind a path of several edges, and explanations walk that path
    {
      int perm[4] = {0, 1, 2, 3};
      do
      {
        for (int sc = 0; sc < 4; ++sc)
        {
          DAtom shortcut = sc == 0 ? DAtom{(size_t)perm[0], (size_t)perm[3], Q(5)} : sc == 1 ? DAtom{(size_t)perm[0], (size_t)perm[3], Q(3)}
                                                                                 : sc == 2   ? DAtom{(size_t)perm[0], (size_t)perm[3], Q(2)}
                                                                                             : DAtom{(size_t)perm[3], (size_t)perm[0], Q(-4)};
          std::vector<DAtom> atoms = {{(size_t)perm[0], (size_t)perm[1], Q(1)}, {(size_t)perm[1], (size_t)perm[2], Q(1)}, {(size_t)perm[2], (size_t)perm[3], Q(1)}, shortcut};
          Spec i;
          i.nidl = 3;
          i.ia = atoms;
          i.depth = th ? 4 : 3;
          g_specs.push_back(i);
          Spec r;
          r.nrdl = 3;
          r.ra = atoms;
          r.depth = i.depth;
          g_specs.push_back(r);
        }
      } while (std::next_permutation(perm, perm + 4));
    }
    // (F) fan-out: 1 boolean + 4 atoms on a 3-cycle with a repeated pair and two binary clauses with the same trigger
    // literal, (!t | u) and (!t | v): one assignment queues several theory literals, so that a conflict raised by
    // propagate() arrives while others are still pending
    {
      std::vector<DAtom> datoms = {{1, 2, Q(-1)}, {2, 3, Q(-1)}, {3, 1, Q(1)}, {1, 2, Q(1)}};
      for (int t = 1; t <= 5; ++t)
        for (int st = -1; st <= 1; st += 2)
          for (int u = 1; u <= 5; ++u)
            for (int su = -1; su <= 1; su += 2)
              for (int v = u + 1; v <= 5; ++v)
                for (int sv = -1; sv <= 1; sv += 2)
                {
                  if (u == t || v == t)
                    continue;
                  Spec i;
                  i.nb = 1;
                  i.nidl = 3;
                  i.ia = datoms;
                  i.cl = {{-st * t, su * u}, {-st * t, sv * v}};
                  i.depth = th ? 4 : 3;
                  g_specs.push_back(i);
                  Spec r = i;
                  r.nidl = 0;
                  r.ia.clear();
                  r.nrdl = 3;
                  r.ra = datoms;
                  g_specs.push_back(r);
                }
    }
    if (th)
    { // half-integer constants for RDL on a reduced pool
      std::vector<DAtom> hp;
      for (size_t a = 1; a <= 3; ++a)
        for (size_t b = 1; b <= 3; ++b)
          if (a != b)
            for (auto d : {Q(1, 2), Q(-1, 2), Q(0)})
              hp.push_back(DAtom{a, b, d});
      subsets(hp.size(), 3, [&](const std::vector<size_t> &idx)
              {
                if (idx.size() != 3)
                  return;
                Spec r;
                r.nrdl = 3;
                for (auto i : idx)
                  r.ra.push_back(hp[i]);
                g_specs.push_back(r); });
    }
    // the special families first, the big pool last (see C09)
    std::rotate(g_specs.begin(), g_specs.begin() + n_main, g_specs.end());
  }
  else if (prop == "C08")
  {
    g_oracles = O_UNDO | O_ENTAIL;
    g_alphabet = "apn";
    // pure SAT: every pair (thorough: triple) of clauses of the 20-clause pool over 3 variables plus two fixed clauses over
    // two more variables that watch the same literals, so that clause conflicts happen with other watchers queued behind
    {
      auto pool = clause_pool(3, true);
      subsets(pool.size(), th ? 3 : 2, [&](const std::vector<size_t> &idx)
              {
                if (idx.size() < 2)
                  return;
                Spec s;
                s.nb = 5;
                for (auto i : idx)
                  s.cl.push_back(pool[i]);
                s.cl.push_back({-1, 4});
                s.cl.push_back({-2, 5});
                s.depth = 4;
                g_specs.push_back(s); });
    }
    g_depth = th ? 7 : 5;
    g_split = 2;
    {
      Spec s; // LRA: one variable bounded several times + a shared expression
      s.nlra = 2;
      s.la = {LA({1, 0}, 0, 5), LA({1, 0}, 0, 3), LA({1, 0}, 0, 1), LA({1, 0}, 2, 0), LA({1, 1}, 0, 4), LA({0, 1}, 2, 2)};
      g_specs.push_back(s);
    }
    {
      Spec s; // IDL: several constraints on the same ordered pair and a 3-cycle
      s.nidl = 3;
      s.ia = {{1, 2, Q(5)}, {1, 2, Q(3)}, {1, 2, Q(1)}, {2, 3, Q(-1)}, {3, 1, Q(-1)}, {2, 1, Q(0)}};
      g_specs.push_back(s);
      Spec r;
      r.nrdl = 3;
      r.ra = s.ia;
      g_specs.push_back(r);
    }
    {
      Spec s; // OV: two variables with overlapping domains + their equality
      s.nval = 3;
      s.ov = {{0b011}, {0b110}, {0b111}};
      s.oe = {{0, 1}, {1, 2}};
      g_specs.push_back(s);
    }
    {
      Spec s; // mixed, with clauses linking the theories
      s.nb = 1;
      s.nlra = 1;
      s.la = {LA({1}, 0, 3), LA({1}, 0, 1), LA({1}, 2, 2)};
      s.nidl = 2;
      s.ia = {{1, 2, Q(2)}, {1, 2, Q(0)}, {2, 1, Q(-1)}};
      s.cl = {{-1, 2}, {1, 5}, {-3, -6}};
      g_specs.push_back(s);
    }
    if (th)
    {
      Spec s;
      s.nlra = 2;
      s.la = {LA({1, 1}, 0, 2), LA({1, 1}, 0, 0), LA({1, -1}, 2, 1), LA({1, 0}, 3, 0), LA({0, 1}, 1, 1)};
      g_specs.push_back(s);
      Spec d;
      d.nidl = 3;
      d.ia = {{0, 1, Q(4)}, {0, 1, Q(2)}, {1, 0, Q(0)}, {1, 2, Q(1)}, {2, 3, Q(1)}, {3, 0, Q(-3)}};
      g_specs.push_back(d);
    }
  }
  else if (prop == "C14")
  {
    g_oracles = O_OV | O_ENTAIL;
    g_alphabet = "apnr";
    g_depth = th ? 5 : 5;
    int nval = th ? 4 : 3;
    unsigned full = (1u << nval) - 1;
    for (unsigned d0 = 1; d0 <= full; ++d0)
      for (unsigned d1 = 1; d1 <= full; ++d1)
      {
        if (th && __builtin_popcount(d0) + __builtin_popcount(d1) > 6)
          continue;
        Spec s;
        s.nval = nval;
        s.ov = {{d0}, {d1}};
        s.oe = {{0, 1}};
        g_specs.push_back(s);
        Spec t = s;
        t.oe = {{1, 0}, {0, 1}};
        g_specs.push_back(t);
      }
    // derived variables (two fields read through one object variable): a parent over two values and two variables created
    // with new_var(lits, vals) from the parent's value literals, for EVERY pair of injective value maps into the universe;
    // their equality is requested, so values controlled by one and the same literal occur
    for (int a0 = 0; a0 < 3; ++a0)
      for (int a1 = 0; a1 < 3; ++a1)
        for (int b0 = 0; b0 < 3; ++b0)
          for (int b1 = 0; b1 < 3; ++b1)
          {
            if (a0 == a1 || b0 == b1)
              continue;
            Spec s;
            s.nval = 3;
            OVar par{3u};
            OVar q1{(1u << a0) | (1u << a1)}, q2{(1u << b0) | (1u << b1)};
            q1.parent = q2.parent = 0;
            q1.map = {a0, a1};
            q2.map = {b0, b1};
            s.ov = {par, q1, q2};
            s.oe = {{1, 2}};
            s.depth = th ? 4 : 3;
            g_specs.push_back(s);
          }
    // variables created in the middle of a history (seed C14-4): ONE variable of EVERY domain, plain or lazy, and a step
    // 'late(v)' that creates a second variable from its value literals wherever the history stands - below a decision
    // that excludes a value, after a pop, at root; the reported domain of both must follow the literals ever after
    for (unsigned d0 = 1; d0 <= 7u; ++d0)
      for (int lz = 0; lz < 2; ++lz)
      {
        Spec s;
        s.nval = 3;
        OVar o{d0};
        o.lazy = lz != 0;
        s.ov = {o};
        s.alphabet = "apnv";
        s.depth = th ? 5 : 4;
        g_specs.push_back(s);
      }
    // lazy variables (enforce_exct_one = false, as the planner creates enum variables): EVERY pair of domains, with and
    // without an equality request; the reported domain must be exactly the values whose literal is not false, whatever
    // combination of value literals the history makes true
    for (unsigned d0 = 1; d0 <= 7; ++d0)
      for (unsigned d1 = 1; d1 <= 7; ++d1)
      {
        if (__builtin_popcount(d0) < 2 && __builtin_popcount(d1) < 2)
          continue;
        Spec s;
        s.nval = 3;
        s.ov = {{d0, true}, {d1, true}};
        s.depth = th ? 4 : 3;
        g_specs.push_back(s);
        Spec t = s;
        t.ov = {{d0, true}, {d1, false}};
        t.oe = {{0, 1}};
        g_specs.push_back(t);
      }
    // interleaved: 5 (6) variables over 3 values (singleton and overlapping two-value domains); one equality is requested as soon
    // as n1 variables exist, a second one after all of them: EVERY ordered pair at EVERY creation point x EVERY ordered
    // pair at the end (the cache of equalities must not depend on when a pair was asked for)
    {
      int nv = th ? 6 : 5;
      static const unsigned doms[] = {1, 3, 6, 3, 4, 5}; // a | ab | bc | ab | c | ac: few two-valued variables keep the truth tables small
      for (int n1 = 2; n1 < nv; ++n1)
        for (int a = 0; a < n1; ++a)
          for (int b = 0; b < n1; ++b)
            if (a != b)
              for (int c = 0; c < nv; ++c)
                for (int d = 0; d < nv; ++d)
                  if (c != d)
                  {
                    Spec s;
                    s.nval = 3;
                    for (int i = 0; i < nv; ++i)
                      s.ov.push_back(OVar{doms[i]});
                    s.oe = {{a, b}, {c, d}};
                    s.oe_after = {n1, 0};
                    s.depth = th ? 2 : 1;
                    g_specs.push_back(s);
                  }
    }
  }
}

static uint64_t units_per_spec()
{
  uint64_t n = 1;
  for (int i = 0; i < g_split; ++i)
    n *= SPLIT_B;
  return n;
}
static void run_unit(uint64_t u)
{
  uint64_t ups = units_per_spec();
  Spec &s = g_specs[u / ups];
  static int default_depth = g_depth;
  g_depth = s.depth ? s.depth : default_depth;
  uint64_t r = u % ups;
  g_digits.assign(g_split, 0);
  for (int i = g_split - 1; i >= 0; --i)
  {
    g_digits[i] = (int)(r % SPLIT_B);
    r /= SPLIT_B;
  }
  std::string stxt = spec_txt(s);
  // the reference tables of a network are computed once per worker process
  static uint64_t cached_spec = ~uint64_t(0);
  static NetRef cached_ref;
  if (cached_spec != u / ups)
  {
    cached_ref = NetRef();
    cached_spec = u / ups;
  }
  NetRef &ref = cached_ref;
  Ctx c{&s, &stxt, &ref};
  std::vector<Op> h;
  g_cnt = Counters();
  explore(c, h);
  vf::count("histories", g_cnt.histories);
  vf::count("steps", g_cnt.steps);
  if (u % ups == 0)
    vf::count("networks", 1);
}

int main(int argc, char **argv)
{
  vf::Args args(argc, argv);
  g_prop = args.get("prop", "C07");
  std::string tier = args.get("tier", "quick");
  families(g_prop, tier);
  if (args.has("depth"))
    g_depth = (int)args.num("depth", g_depth);
  if (args.has("depth_delta"))
  {
    int dd = (int)args.num("depth_delta", 0);
    g_depth += dd;
    for (auto &sp : g_specs)
      if (sp.depth)
        sp.depth = std::max(1, sp.depth + dd); // 0 would mean "family default"
  }
  if (args.has("split"))
    g_split = (int)args.num("split", g_split);
  if (args.has("replay"))
  {
    std::string txt = args.get("replay");
    Spec s;
    std::vector<Op> h;
    parse_case(txt, s, h);
    std::string stxt = spec_txt(s);
    NetRef ref;
    Ctx c{&s, &stxt, &ref};
    // judge every prefix so that a replay of a longer history also shows earlier failures
    RunOut out;
    run_history(c, h, out, false);
    if (g_oracles & O_UNDO)
      oracle_undo(c, h);
    for (auto &[k, f] : vf::st().sink.findings)
      std::printf("REPRODUCED key=%s\n  %s\n", k.c_str(), f.msg.c_str());
    return vf::st().sink.findings.empty() ? 0 : 1;
  }
  vf::Options opt;
  opt.jobs = (int)args.num("jobs", 16);
  opt.batch = (uint64_t)args.num("batch", 1);
  opt.case_limit_ms = 10000;
  long dl = args.num("deadline_s", 0);
  if (dl)
    opt.deadline_ms = vf::now_ms() + (uint64_t)dl * 1000;
  opt.crash_key = [](uint64_t, const std::string &text, const std::string &what)
  {
    Spec s;
    std::vector<Op> h;
    parse_case(text, s, h);
    std::string th = s.nlra ? "lra" : s.nidl ? "idl" : s.nrdl ? "rdl" : !s.ov.empty() ? "ov" : "sat";
    std::string last = h.empty() ? "build" : std::string(1, h.back().kind);
    return "C18:" + th + ":" + (what == "hang" ? "hang" : "abort") + "-in-" + (h.empty() ? "construction" : op_txt(Op{h.back().kind, {}}));
  };
  uint64_t t0 = vf::now_ms();
  if (!args.has("batch"))
    opt.batch = std::max<uint64_t>(1, units_per_spec() / 32);
  opt.first_unit = (uint64_t)args.num("first_unit", 0);
  opt.max_dead_cases = 100; // every abort re-runs the prefix of its unit: give up (exhaustive:false) when aborts pile up
  uint64_t n_total_units = args.has("last_unit") ? (uint64_t)args.num("last_unit", 0) : g_specs.size() * units_per_spec();
  vf::RunResult rr = vf::run_units(n_total_units, run_unit, opt);
  std::map<std::string, std::string> extra;
  extra["networks_total"] = std::to_string(g_specs.size());
  extra["networks_done"] = std::to_string(rr.units_done / units_per_spec());
  extra["depth"] = std::to_string(g_depth);
  extra["wall_ms"] = std::to_string(vf::now_ms() - t0);
  vf::write_result(args.get("out", "/dev/stdout"), rr.exhaustive, extra);
  return 0;
}
