// E6 execmc (C19): the executor under every sequence of environment answers up to a deviation bound.
//
// A recording executor_listener is the environment.  Choice points: every starting()/ending()
// callback (menu: no request | dont_start_yet / dont_end_yet for one notified atom with delay 1 or 2)
// and the moment before every tick() (menu: nothing | failure({a}) for one atom that has started and
// not ended).  Default answer = 0 (no request); a non-default answer is one deviation.  All
// executions with at most B deviations are run to a fixed horizon, each on a fresh solver + executor.
#include "arena.h"
#include "driver.h"
#include "executor.h"
#include "executor_listener.h"
#include "solver.h"
#include "atom.h"
#include "predicate.h"
#include <sstream>

using namespace ratio;
using namespace smt;

struct Plan
{
  const char *name;
  const char *text;
  int horizon_ticks;
  int bound_cap = 0; // > 0: explore this plan with at most this many deviations in the quick tier (one more in the thorough tier)
};
static std::vector<Plan> PLANS = {
    {"sv-meet", "class S : StateVariable { predicate A() { duration >= 2.0; } predicate B() { duration >= 1.0; } } S s = new S(); goal a = new s.A(); goal b = new s.B(); a.end <= b.start; a.start >= 1.0;", 9},
    {"impulse-at-start", "predicate I() : Impulse { } predicate V() : Interval { duration >= 2.0; } goal i = new I(); goal v = new V(); i.at == v.start; v.start >= 1.0;", 8},
    {"rule-predecessor", "predicate V() : Interval { duration >= 1.0; goal w = new W(end: start); } predicate W() : Interval { duration >= 1.0; start >= 1.0; } goal v = new V();", 9},
    {"disjunction", "predicate V() : Interval { duration >= 1.0; { goal w = new W(end: start); } or { goal u = new U(end: start); } } predicate W() : Interval { duration >= 1.0; start >= 1.0; } predicate U() : Interval { duration >= 2.0; start >= 1.0; } goal v = new V();", 10},
    {"fractional", "predicate V() : Interval { duration >= 1.0; } goal v = new V(); goal w = new V(); v.start >= 4.5; w.start >= 4.5; v.duration <= 3.0; w.end >= 6.25;", 12},
    {"constants", "predicate V() : Interval { } fact f = new V(start: 1.0, end: 3.0); goal g = new V(); g.start >= 2.0; g.duration >= 1.0;", 8},
    // a resource that forces an ordering between two uses (a delay of the first must push the second)
    {"rr-two-uses", "ReusableResource r = new ReusableResource(2.0); goal u = new r.Use(amount: 2.0); goal w = new r.Use(amount: 1.0); u.duration >= 2.0; w.duration >= 2.0; u.start >= 1.0;", 10},
    // three atoms chained on one state variable
    {"sv-chain3", "class S : StateVariable { predicate A() { duration >= 1.0; } } S s = new S(); goal a = new s.A(); goal b = new s.A(); goal c = new s.A(); a.start >= 1.0; a.end <= b.start; b.end <= c.start;", 10},
    // two atoms on different state variables tied together by equalities
    {"sv-tied", "class S : StateVariable { predicate A() { duration >= 2.0; } } S s1 = new S(); S s2 = new S(); goal a = new s1.A(); goal b = new s2.A(); a.start >= 1.0; b.start == a.start; b.end == a.end;", 9},
    // strict temporal inequalities: the planned times carry an infinitesimal part (3 + eps), which the dispatcher has to honour
    {"strict-precedence", "predicate M() : Interval { duration >= 3.0; } predicate G() : Interval { duration >= 2.0; } goal m = new M(); goal g = new G(); g.start > m.end;", 9},
    {"strict-impulse", "predicate M() : Interval { duration >= 2.0; } predicate B() : Impulse { } goal m = new M(); goal b = new B(); b.at > m.start + 1.0; m.start >= 1.0;", 8},
    // three alternatives for one goal, the middle one tied to the end of another atom through an intermediate variable: after
    // a failure the re-solve tries it and may push the end of an atom that has already ended
    {"three-alternatives", "predicate A() : Interval { duration >= 5.0; } predicate B() : Interval { duration >= 2.0; } predicate C() : Interval { duration >= 10.0; } predicate D() : Interval { duration >= 10.0; } predicate E() : Interval { duration >= 12.0; } predicate G() : Interval { { goal c = new C(start:start, end:end); } or { goal d = new D(start:start, end:end); real t; t >= d.start + 12.0; a.end >= t; b.start <= 15.0; } or { goal e = new E(start:start, end:end); } } goal a = new A(); goal b = new B(); goal g = new G(); b.start >= a.end + 6.0; g.start >= a.start + 1.0;", 20, 2},
    // an agent with an impulse followed by an interval
    {"agent", "class G : Agent { predicate N() : Impulse { } predicate W() : Interval { duration >= 1.0; } } G ag = new G(); goal n = new ag.N(); goal w = new ag.W(); n.at >= 2.0; w.start >= n.at;", 9},
};

struct Point
{
  int menu;
  int chosen;
  std::string what;
};

struct Env;
static Env *g_env = nullptr;

static std::string rs(const rational &r) { return to_string(r); }
static std::string irs(const inf_rational &r) { return to_string(r); }

struct Env : executor_listener
{
  solver &slv;
  executor &ex;
  std::vector<int> prefix;
  std::vector<Point> points;
  std::vector<std::string> log;      // callback stream
  std::vector<std::string> problems; // monitor violations: "key|message"
  std::map<const atom *, int> n_start, n_end;
  std::map<const atom *, inf_rational> start_val, end_val; // values frozen at start / end
  std::set<const atom *> delayed_in_this_tick;             // atoms whose start was delayed in the current tick() call and that have not been re-notified since
  std::set<const atom *> end_delayed_in_this_tick;         // the same for dont_end_yet / ending()
  std::set<const atom *> failed;
  bool in_tick = false;
  rational tick_time;

  Env(solver &s, executor &e, const std::vector<int> &p) : executor_listener(e), slv(s), ex(e), prefix(p) {}

  int choose(int menu, const std::string &what)
  {
    if (menu <= 1)
      return 0;
    int c = 0;
    size_t k = points.size();
    if (k < prefix.size())
    {
      c = prefix[k];
      if (c < 0 || c >= menu)
      {
        std::fprintf(stderr, "execmc: replay divergence at point %zu (%s): choice %d of %d\n", k, what.c_str(), c, menu);
        _exit(78);
      }
    }
    points.push_back(Point{menu, c, what});
    return c;
  }
  std::string nm(const atom *a) const
  {
    for (auto &[n, x] : slv.get_exprs())
      if (&*x == a)
        return n;
    return a->get_type().get_name() + "#" + std::to_string(a->get_sigma());
  }
  std::vector<atom *> sorted(const std::unordered_set<atom *> &as) const
  {
    std::vector<atom *> v(as.begin(), as.end());
    std::sort(v.begin(), v.end(), [](atom *x, atom *y)
              { return x->get_sigma() < y->get_sigma(); });
    return v;
  }
  void problem(const std::string &key, const std::string &msg) { problems.push_back(key + "|" + msg); }

  void tick(const rational &time) override { log.push_back("tick " + rs(time)); }
  void starting(const std::unordered_set<atom *> &as) override
  {
    auto v = sorted(as);
    std::string names;
    for (auto a : v)
      names += nm(a) + " ";
    log.push_back("starting " + names);
    // the client is consulted (again) about these atoms: an earlier delay request of this tick() call has been
    // honoured by moving them; with coarse ticks the moved time may still lie within the current tick
    for (auto a : v)
      delayed_in_this_tick.erase(a);
    int c = choose(1 + 2 * (int)v.size(), "starting " + names);
    if (c > 0)
    {
      atom *a = v[(c - 1) / 2];
      rational d((c - 1) % 2 + 1);
      log.push_back("  dont_start_yet " + nm(a) + " +" + rs(d));
      ex.dont_start_yet({{a, d}});
      delayed_in_this_tick.insert(a);
    }
  }
  void ending(const std::unordered_set<atom *> &as) override
  {
    auto v = sorted(as);
    std::string names;
    for (auto a : v)
      names += nm(a) + " ";
    log.push_back("ending " + names);
    for (auto a : v)
      end_delayed_in_this_tick.erase(a);
    int c = choose(1 + 2 * (int)v.size(), "ending " + names);
    if (c > 0)
    {
      atom *a = v[(c - 1) / 2];
      rational d((c - 1) % 2 + 1);
      log.push_back("  dont_end_yet " + nm(a) + " +" + rs(d));
      ex.dont_end_yet({{a, d}});
      end_delayed_in_this_tick.insert(a);
    }
  }
  void start(const std::unordered_set<atom *> &as) override
  {
    for (auto a : sorted(as))
    {
      log.push_back("start " + nm(a));
      if (++n_start[a] > 1)
        problem("C19:atom-started-twice", nm(a) + " started " + std::to_string(n_start[a]) + " times");
      if (n_end.count(a))
        problem("C19:start-after-end", nm(a) + " started after it had ended");
      if (delayed_in_this_tick.count(a) && !slv.is_impulse(*a))
        problem("C19:started-in-the-tick-that-delayed-it", nm(a) + " was started in the same tick() call in which the client asked to delay it, without being asked again");
      arith_expr s = slv.is_impulse(*a) ? a->get(RATIO_AT) : a->get(RATIO_START);
      inf_rational sv = slv.arith_value(s);
      if (sv > inf_rational(ex.get_current_time()))
        problem("C19:started-before-its-planned-time", nm(a) + " started at time " + rs(ex.get_current_time()) + " but its planned start is " + irs(sv));
      start_val[a] = sv;
    }
  }
  void end(const std::unordered_set<atom *> &as) override
  {
    for (auto a : sorted(as))
    {
      log.push_back("end " + nm(a));
      if (++n_end[a] > 1)
        problem("C19:atom-ended-twice", nm(a) + " ended " + std::to_string(n_end[a]) + " times");
      if (end_delayed_in_this_tick.count(a) && !slv.is_impulse(*a))
        problem("C19:ended-in-the-tick-that-delayed-it", nm(a) + " was ended in the same tick() call in which the client asked to delay its end, without being asked again");
      if (!n_start.count(a))
        problem("C19:end-without-start", nm(a) + " ended but was never started");
      arith_expr e = slv.is_impulse(*a) ? a->get(RATIO_AT) : a->get(RATIO_END);
      inf_rational ev = slv.arith_value(e);
      if (ev > inf_rational(ex.get_current_time()))
        problem("C19:ended-before-its-planned-time", nm(a) + " ended at time " + rs(ex.get_current_time()) + " but its planned end is " + irs(ev));
      end_val[a] = ev;
    }
  }

  // ---- plan validity (C04/C06 style) and frozen values, checked after every tick ----
  void check_plan(const std::string &when)
  {
    inf_rational origin = slv.arith_value(slv.get("origin")), horizon = slv.arith_value(slv.get("horizon"));
    std::vector<atom *> act;
    for (auto &[pn, p] : slv.get_predicates())
      collect(*p, act);
    std::queue<type *> q;
    for (auto &[tn, t] : slv.get_types())
      if (!t->is_primitive())
        q.push(t);
    while (!q.empty())
    {
      for (auto &[pn, p] : q.front()->get_predicates())
        collect(*p, act);
      q.pop();
    }
    std::sort(act.begin(), act.end(), [](atom *x, atom *y)
              { return x->get_sigma() < y->get_sigma(); });
    act.erase(std::unique(act.begin(), act.end()), act.end());
    for (auto a : act)
    {
      if (slv.is_interval(*a))
      {
        inf_rational s = slv.arith_value(a->get(RATIO_START)), e = slv.arith_value(a->get(RATIO_END)), d = slv.arith_value(a->get(RATIO_DURATION));
        if (s < origin || e < s || horizon < e || e - s != d)
          problem("C19:adapted-plan-ill-formed", when + ": " + nm(a) + " has start " + irs(s) + " end " + irs(e) + " duration " + irs(d) + " within [" + irs(origin) + "," + irs(horizon) + "]");
        if (start_val.count(a) && start_val[a] != s)
          problem("C19:started-atom-moved", when + ": " + nm(a) + " started at " + irs(start_val[a]) + " but its start is now " + irs(s));
        if (end_val.count(a) && end_val[a] != e)
          problem("C19:ended-atom-moved", when + ": " + nm(a) + " ended at " + irs(end_val[a]) + " but its end is now " + irs(e));
      }
      else if (slv.is_impulse(*a))
      {
        inf_rational at = slv.arith_value(a->get(RATIO_AT));
        if (at < origin || horizon < at)
          problem("C19:adapted-plan-ill-formed", when + ": impulse " + nm(a) + " at " + irs(at));
        if (start_val.count(a) && start_val[a] != at)
          problem("C19:started-atom-moved", when + ": impulse " + nm(a) + " dispatched at " + irs(start_val[a]) + " but is now at " + irs(at));
      }
    }
    check_capacity(when, act);
    // state variables: no two active atoms on the same instance overlap
    for (size_t i = 0; i < act.size(); ++i)
      for (size_t j = i + 1; j < act.size(); ++j)
      {
        atom *a = act[i], *b = act[j];
        if (!slv.is_interval(*a) || !slv.is_interval(*b))
          continue;
        if (&a->get_type().get_scope() == &slv || &a->get_type().get_scope() != &b->get_type().get_scope())
          continue;
        if (static_cast<type &>(a->get_type().get_scope()).get_supertypes().empty() || static_cast<type &>(a->get_type().get_scope()).get_supertypes()[0]->get_name() != "StateVariable")
          continue;
        if (&*a->get(TAU) != &*b->get(TAU))
          continue;
        inf_rational s = std::max(slv.arith_value(a->get(RATIO_START)), slv.arith_value(b->get(RATIO_START)));
        inf_rational e = std::min(slv.arith_value(a->get(RATIO_END)), slv.arith_value(b->get(RATIO_END)));
        if (s < e)
          problem("C19:adapted-plan-overlaps-on-state-variable", when + ": " + nm(a) + " and " + nm(b) + " overlap");
      }
  }
  // reusable resources: at every start pulse the active uses of an instance fit its capacity
  void check_capacity(const std::string &when, const std::vector<atom *> &act)
  {
    for (atom *a : act)
    {
      if (!slv.is_interval(*a) || a->get_type().get_name() != "Use" || static_cast<type &>(a->get_type().get_scope()).get_name() != "ReusableResource")
        continue;
      inf_rational t = slv.arith_value(a->get(RATIO_START));
      inf_rational sum(rational::ZERO);
      for (atom *b : act)
        if (slv.is_interval(*b) && &b->get_type() == &a->get_type() && &*b->get(TAU) == &*a->get(TAU) && slv.arith_value(b->get(RATIO_START)) <= t && t < slv.arith_value(b->get(RATIO_END)))
        {
          arith_expr am = b->get("amount");
          sum += slv.arith_value(am);
        }
      arith_expr cap_x = a->get(TAU)->get("capacity");
      inf_rational cap = slv.arith_value(cap_x);
      if (sum > cap)
        problem("C19:adapted-plan-exceeds-capacity", when + ": at time " + irs(t) + " the active uses need " + irs(sum) + " of capacity " + irs(cap));
    }
  }
  void collect(predicate &p, std::vector<atom *> &act)
  {
    if (!slv.is_impulse(p) && !slv.is_interval(p))
      return;
    for (auto &x : p.get_instances())
    {
      atom *a = static_cast<atom *>(&*x);
      if (slv.get_sat_core().value(a->get_sigma()) == True)
        act.push_back(a);
    }
  }
};

struct ExecOut
{
  std::vector<Point> points;
  std::vector<std::string> problems;
  std::string outcome; // "completed" / "execution_exception@tick k" / "unsolvable-plan"
  std::string state;   // canonical end state
  std::string log;
};

static ExecOut execute_in_arena(const Plan &plan, const rational &upt, const std::vector<int> &prefix);
// every execution runs on a fresh solver + executor inside a deterministic-allocation scope, so that the
// iteration order of the solver's pointer-keyed containers is a function of the answers alone
static ExecOut execute(const Plan &plan, const rational &upt, const std::vector<int> &prefix)
{
  ExecOut out;
  vf::Arena::Scope arena;
  ExecOut tmp = execute_in_arena(plan, upt, prefix);
  {
    vf::Arena::Pause p;
    for (auto &x : tmp.points)
      out.points.push_back(Point{x.menu, x.chosen, std::string(x.what.c_str())});
    for (auto &x : tmp.problems)
      out.problems.push_back(std::string(x.c_str()));
    out.outcome = std::string(tmp.outcome.c_str());
    out.state = std::string(tmp.state.c_str());
    out.log = std::string(tmp.log.c_str());
  }
  return out;
}
static ExecOut execute_in_arena(const Plan &plan, const rational &upt, const std::vector<int> &prefix)
{
  ExecOut o;
  solver slv;
  executor ex(slv, upt);
  Env env(slv, ex, prefix);
  try
  {
    slv.read(plan.text);
    if (!slv.solve())
    {
      o.outcome = "unsolvable-plan";
      return o;
    }
  }
  catch (const std::exception &e)
  {
    o.outcome = std::string("read/solve failed: ") + e.what();
    return o;
  }
  // atoms that were in the plan and not in the past when execution begins
  env.check_plan("initial plan");
  int k = 0;
  try
  {
    // the horizon is given in time units: the number of ticks scales with units_per_tick
    const int n_ticks = (int)((plan.horizon_ticks * upt.denominator() + upt.numerator() - 1) / upt.numerator());
    for (k = 0; k < n_ticks; ++k)
    {
      // between ticks: optionally report the failure of one running atom
      std::vector<atom *> running;
      for (auto &[a, n] : env.n_start)
        if (!env.n_end.count(a) && !env.failed.count(a) && slv.get_sat_core().value(a->get_sigma()) == True)
          running.push_back(const_cast<atom *>(a));
      std::sort(running.begin(), running.end(), [](atom *x, atom *y)
                { return x->get_sigma() < y->get_sigma(); });
      std::string names;
      for (auto a : running)
        names += env.nm(a) + " ";
      int c = env.choose(1 + (int)running.size(), "between-ticks running: " + names);
      if (c > 0)
      {
        atom *a = running[c - 1];
        env.log.push_back("failure " + env.nm(a));
        env.failed.insert(a);
        ex.failure({a});
        env.check_plan("after failure of " + env.nm(a));
      }
      rational before = ex.get_current_time();
      env.delayed_in_this_tick.clear();
      env.end_delayed_in_this_tick.clear();
      ex.tick();
      if (ex.get_current_time() - before != upt)
        env.problem("C19:time-step-is-not-one-tick", "tick() moved the current time from " + rs(before) + " to " + rs(ex.get_current_time()) + " with " + rs(upt) + " units per tick");
      env.check_plan("after tick " + std::to_string(k + 1));
    }
    o.outcome = "completed";
    // every atom that is active at the horizon (and has not been declared failed) was started and ended exactly once,
    // provided its planned interval lies within the executed horizon
    std::vector<atom *> act;
    for (auto &[pn, p] : slv.get_predicates())
      env.collect(*p, act);
    std::queue<type *> q;
    for (auto &[tn, t] : slv.get_types())
      if (!t->is_primitive())
        q.push(t);
    while (!q.empty())
    {
      for (auto &[pn, p] : q.front()->get_predicates())
        env.collect(*p, act);
      q.pop();
    }
    inf_rational now(ex.get_current_time() - upt); // pulses <= this time have been processed
    for (auto a : act)
    {
      bool imp = slv.is_impulse(*a);
      inf_rational s = slv.arith_value(imp ? a->get(RATIO_AT) : a->get(RATIO_START)), e = slv.arith_value(imp ? a->get(RATIO_AT) : a->get(RATIO_END));
      if (s <= now && env.n_start[a] != 1)
        env.problem("C19:active-atom-never-started", env.nm(a) + " is active with start " + irs(s) + " <= " + irs(now) + " but was started " + std::to_string(env.n_start[a]) + " times");
      if (e <= now && env.n_end[a] != 1)
        env.problem("C19:active-atom-never-ended", env.nm(a) + " is active with end " + irs(e) + " <= " + irs(now) + " but was ended " + std::to_string(env.n_end[a]) + " times");
    }
  }
  catch (const execution_exception &)
  {
    o.outcome = "execution_exception@tick" + std::to_string(k + 1);
  }
  o.points = env.points;
  o.problems = env.problems;
  std::ostringstream st;
  st << o.outcome << " t=" << rs(ex.get_current_time()) << " started:";
  for (auto &[a, n] : env.n_start)
    st << env.nm(a) << "@" << irs(env.start_val[a]) << " ";
  st << "ended:";
  for (auto &[a, n] : env.n_end)
    st << env.nm(a) << "@" << irs(env.end_val[a]) << " ";
  o.state = st.str();
  for (auto &l : env.log)
    o.log += l + "; ";
  return o;
}

static int g_plan = 0, g_bound = 2;
static rational g_upt(1);
static uint64_t g_execs = 0;
static const uint64_t UNITS = 32;

static std::string choices_txt(const std::vector<int> &c)
{
  std::string s;
  for (size_t i = 0; i < c.size(); ++i)
    s += (i ? "," : "") + std::to_string(c[i]);
  return s.empty() ? "-" : s;
}
static std::string case_txt(const std::vector<int> &p) { return std::string("plan=") + PLANS[g_plan].name + " upt=" + to_string(g_upt) + " answers=" + choices_txt(p); }

static ExecOut run_and_judge(const std::vector<int> &prefix, bool judge)
{
  std::string txt = case_txt(prefix);
  bool j = judge && vf::begin_case(txt);
  if (judge && !j && vf::is_dead_case())
  {
    ExecOut o;
    o.outcome = "dead";
    return o;
  }
  if (!j)
    vf::note("(silent) " + txt);
  ExecOut o = execute(PLANS[g_plan], g_upt, prefix);
  if (j)
  {
    ++g_execs;
    std::set<std::string> seen;
    for (auto &p : o.problems)
    {
      std::string key = p.substr(0, p.find('|'));
      if (seen.insert(key).second)
        vf::finding(key + ":" + PLANS[g_plan].name, txt, p.substr(p.find('|') + 1) + "\n  log: " + o.log.substr(0, 1500));
    }
    if (o.outcome.rfind("read/solve failed", 0) == 0 || o.outcome == "unsolvable-plan")
      vf::finding(std::string("HARNESS:plan-not-solvable:") + PLANS[g_plan].name, txt, o.outcome);
    vf::end_case();
    vf::distinct("states", vf::fnv(o.state));
    vf::distinct("outcomes", vf::fnv(o.outcome));
    vf::count("callbacks", std::count(o.log.begin(), o.log.end(), ';'));
    if ((g_execs & 0xff) == 1)
      vf::sample(txt + " => " + o.state);
  }
  return o;
}

static void explore(const std::vector<int> &prefix, int depth, uint64_t unit)
{
  ExecOut o = run_and_judge(prefix, depth > 0 || unit == 0);
  if (o.outcome == "dead")
    return;
  std::vector<int> choices;
  for (auto &p : o.points)
    choices.push_back(p.chosen);
  int dev = 0;
  for (size_t i = 0; i < prefix.size() && i < o.points.size(); ++i)
    dev += o.points[i].chosen != 0;
  if (dev >= g_bound)
    return;
  uint64_t alt_index = 0;
  for (size_t i = prefix.size(); i < o.points.size(); ++i)
    for (int alt = 1; alt < o.points[i].menu; ++alt)
    {
      if (depth == 0 && (alt_index++ % UNITS) != unit)
        continue;
      std::vector<int> np(choices.begin(), choices.begin() + i);
      np.push_back(alt);
      explore(np, depth + 1, unit);
    }
}

static void run_unit(uint64_t u)
{
  g_execs = 0;
  explore({}, 0, u);
  vf::count("executions", g_execs);
}

int main(int argc, char **argv)
{
  vf::Args args(argc, argv);
  std::string tier = args.get("tier", "quick");
  auto parse_upt = [](const std::string &s)
  {
    size_t p = s.find('/');
    return p == std::string::npos ? rational(std::atol(s.c_str())) : rational(std::atol(s.substr(0, p).c_str()), std::atol(s.substr(p + 1).c_str()));
  };
  if (args.has("replay"))
  {
    std::string c = args.get("replay");
    std::string pn = c.substr(c.find("plan=") + 5);
    pn = pn.substr(0, pn.find(' '));
    for (size_t i = 0; i < PLANS.size(); ++i)
      if (pn == PLANS[i].name)
        g_plan = (int)i;
    std::string us = c.substr(c.find("upt=") + 4);
    g_upt = parse_upt(us.substr(0, us.find(' ')));
    std::string cs = c.substr(c.find("answers=") + 8);
    std::vector<int> choices;
    if (cs != "-")
    {
      size_t q = 0;
      while (q < cs.size())
      {
        size_t e = cs.find(',', q);
        if (e == std::string::npos)
          e = cs.size();
        choices.push_back(std::atoi(cs.substr(q, e - q).c_str()));
        q = e + 1;
      }
    }
    ExecOut a = execute(PLANS[g_plan], g_upt, choices);
    ExecOut b = execute(PLANS[g_plan], g_upt, choices);
    if (a.state != b.state || a.log != b.log)
    {
      std::printf("replay: the same answers produced two different observations - harness error\n");
      return 2;
    }
    std::printf("%s\nlog: %s\n", a.state.c_str(), a.log.c_str());
    for (auto &p : a.problems)
      std::printf("REPRODUCED %s\n", p.c_str());
    return a.problems.empty() ? 0 : 1;
  }
  bool th = tier == "thorough";
  vf::Options opt;
  opt.jobs = (int)args.num("jobs", 16);
  opt.batch = 1;
  opt.case_limit_ms = 20000;
  opt.max_dead_cases = 50;
  long dl = args.num("deadline_s", 0);
  uint64_t deadline = dl ? vf::now_ms() + (uint64_t)dl * 1000 : 0;
  opt.deadline_ms = deadline;
  opt.crash_key = [](uint64_t, const std::string &text, const std::string &what)
  {
    std::string pn = text.substr(0, text.find(' '));
    if (what.find("exit status 78") != std::string::npos)
      return std::string("HARNESS:replay-divergence");
    return "C19:" + std::string(what == "hang" ? "hang" : "abort") + ":" + pn;
  };
  uint64_t t0 = vf::now_ms();
  bool exhaustive = true;
  std::string levels = "[";
  // a tick of 2 units is coarser than the delays of the menu: a delayed atom can still be due within the same tick() call
  std::vector<rational> upts = {rational(1), rational(1, 2), rational(2)};
  // deviation bounds are completed in increasing order: every plan at the base bound first, then (thorough) one more
  // deviation for as long as the deadline allows
  std::vector<int> bounds = {(int)args.num("bound", th ? 4 : 3)};
  if (th && !args.has("bound"))
    bounds.push_back(5);
  for (int bound : bounds)
    for (size_t pi = 0; pi < PLANS.size(); ++pi)
      for (auto &u : upts)
      {
        if (deadline && vf::now_ms() > deadline)
        {
          exhaustive = false;
          break;
        }
        g_plan = (int)pi;
        g_upt = u;
        g_bound = bound;
        if (PLANS[pi].bound_cap)
          g_bound = std::min(bound, PLANS[pi].bound_cap + (th ? 1 : 0));
        uint64_t before = vf::st().sink.counters["executions"];
        vf::RunResult rr = vf::run_units(UNITS, run_unit, opt);
        exhaustive = exhaustive && rr.exhaustive;
        levels += std::string(levels.size() > 1 ? "," : "") + "{\"plan\":\"" + PLANS[pi].name + "\",\"units_per_tick\":\"" + to_string(u) + "\",\"deviation_bound\":" + std::to_string(g_bound) + ",\"executions\":" + std::to_string(vf::st().sink.counters["executions"] - before) + ",\"complete\":" + (rr.exhaustive ? "true" : "false") + "}";
      }
  levels += "]";
  std::map<std::string, std::string> extra;
  extra["wall_ms"] = std::to_string(vf::now_ms() - t0);
  extra["levels"] = levels;
  vf::write_result(args.get("out", "/dev/stdout"), exhaustive, extra);
  return 0;
}
