// E4 lexmc: the RIDDLE reader on exhaustively enumerated texts.
//
//   --mode tokens   : real lexer vs. reference lexer on every keyword/operator/literal variant and every
//                     sequence of <= K tokens of the token alphabet, with several separators        (C16a)
//   --mode bytes    : every byte string of length <= L over a 14-symbol alphabet through lexer+parser;
//                     allowed outcomes: accepted, or a std::exception, within the time limit         (C18a)
//   --mode prefixes : every prefix of every file under <repo>/examples through lexer+parser          (C18a)
//   --mode parse    : every expression of a bounded token grammar; the AST built by the real parser
//                     (observed through its virtual node factories) vs. a reference precedence parser (C16b)
#include "driver.h"
#include "riddle_parser.h"
#include "json.h"
#include <dirent.h>
#include <fstream>
#include <sstream>
#include <sys/stat.h>

using namespace riddle;

// =================================================================================================
// reference lexer (written from the token table in riddle_lexer.h)
// =================================================================================================
struct RTok
{
  int sym;
  std::string text; // identifier / string payload / canonical number "n/d"
};
static const std::pair<const char *, int> KEYWORDS[] = {
    {"bool", BOOL_ID}, {"int", INT_ID}, {"real", REAL_ID}, {"tp", TP_ID}, {"string", STRING_ID}, {"typedef", TYPEDEF_ID}, {"enum", ENUM_ID}, {"class", CLASS_ID}, {"goal", GOAL_ID}, {"fact", FACT_ID}, {"predicate", PREDICATE_ID}, {"new", NEW_ID}, {"or", OR_ID}, {"void", VOID_ID}, {"return", RETURN_ID}};
static bool id_start(unsigned char c) { return c == '_' || (c >= 'a' && c <= 'z') || (c >= 'A' && c <= 'Z'); }
static bool id_part(unsigned char c) { return id_start(c) || (c >= '0' && c <= '9'); }
static bool digit(unsigned char c) { return c >= '0' && c <= '9'; }
static std::string canon_num(const std::string &intgr, const std::string &dec)
{
  // value = (intgr dec) / 10^|dec| reduced; small inputs only
  long n = std::atol((intgr + dec).c_str()), d = 1;
  for (size_t i = 0; i < dec.size(); ++i)
    d *= 10;
  long a = n < 0 ? -n : n, b = d;
  while (b)
  {
    long t = a % b;
    a = b;
    b = t;
  }
  if (a > 1)
  {
    n /= a;
    d /= a;
  }
  if (n == 0)
    d = 1;
  return std::to_string(n) + "/" + std::to_string(d);
}
// returns false on a lexical error
static bool ref_lex(const std::string &s, std::vector<RTok> &out)
{
  size_t i = 0, n = s.size();
  while (i < n)
  {
    unsigned char c = s[i];
    if (c == ' ' || c == '\t' || c == '\r' || c == '\n')
    {
      ++i;
      continue;
    }
    if (c == '/' && i + 1 < n && s[i + 1] == '/')
    {
      while (i < n && s[i] != '\n' && s[i] != '\r')
        ++i;
      continue;
    }
    if (c == '/' && i + 1 < n && s[i + 1] == '*')
    {
      size_t e = s.find("*/", i + 2);
      if (e == std::string::npos)
        return false;
      i = e + 2;
      continue;
    }
    if (id_start(c))
    {
      size_t j = i;
      while (j < n && id_part(s[j]))
        ++j;
      std::string w = s.substr(i, j - i);
      i = j;
      int sym = ID_ID;
      for (auto &k : KEYWORDS)
        if (w == k.first)
          sym = k.second;
      if (w == "true" || w == "false")
        out.push_back({BoolLiteral_ID, w});
      else
        out.push_back({sym, sym == ID_ID ? w : ""});
      continue;
    }
    if (digit(c))
    {
      size_t j = i;
      while (j < n && digit(s[j]))
        ++j;
      std::string intgr = s.substr(i, j - i), dec;
      if (j < n && s[j] == '.')
      {
        size_t k = j + 1;
        while (k < n && digit(s[k]))
          ++k;
        dec = s.substr(j + 1, k - j - 1);
        if (k < n && s[k] == '.')
          return false; // "1.2." is rejected by the language
        i = k;
        out.push_back({RealLiteral_ID, canon_num(intgr, dec)});
      }
      else
      {
        i = j;
        out.push_back({IntLiteral_ID, std::to_string(std::atol(intgr.c_str()))});
      }
      continue;
    }
    if (c == '.' && i + 1 < n && digit(s[i + 1]))
    {
      size_t k = i + 1;
      while (k < n && digit(s[k]))
        ++k;
      if (k < n && s[k] == '.')
        return false;
      out.push_back({RealLiteral_ID, canon_num("", s.substr(i + 1, k - i - 1))});
      i = k;
      continue;
    }
    if (c == '"')
    {
      std::string str;
      size_t j = i + 1;
      bool closed = false;
      while (j < n)
      {
        if (s[j] == '"')
        {
          closed = true;
          break;
        }
        if (s[j] == '\r' || s[j] == '\n')
          return false;
        if (s[j] == '\\')
        {
          if (j + 1 >= n)
            return false;
          str += s[j + 1];
          j += 2;
          continue;
        }
        str += s[j++];
      }
      if (!closed)
        return false;
      out.push_back({StringLiteral_ID, str});
      i = j + 1;
      continue;
    }
    auto two = [&](char a, char b)
    { return c == a && i + 1 < n && s[i + 1] == b; };
    if (two('=', '='))
    {
      out.push_back({EQEQ_ID, ""});
      i += 2;
      continue;
    }
    if (two('<', '='))
    {
      out.push_back({LTEQ_ID, ""});
      i += 2;
      continue;
    }
    if (two('>', '='))
    {
      out.push_back({GTEQ_ID, ""});
      i += 2;
      continue;
    }
    if (two('!', '='))
    {
      out.push_back({BANGEQ_ID, ""});
      i += 2;
      continue;
    }
    if (two('-', '>'))
    {
      out.push_back({IMPLICATION_ID, ""});
      i += 2;
      continue;
    }
    int sym = -1;
    switch (c)
    {
    case '.':
      sym = DOT_ID;
      break;
    case ',':
      sym = COMMA_ID;
      break;
    case ':':
      sym = COLON_ID;
      break;
    case ';':
      sym = SEMICOLON_ID;
      break;
    case '(':
      sym = LPAREN_ID;
      break;
    case ')':
      sym = RPAREN_ID;
      break;
    case '[':
      sym = LBRACKET_ID;
      break;
    case ']':
      sym = RBRACKET_ID;
      break;
    case '{':
      sym = LBRACE_ID;
      break;
    case '}':
      sym = RBRACE_ID;
      break;
    case '+':
      sym = PLUS_ID;
      break;
    case '-':
      sym = MINUS_ID;
      break;
    case '*':
      sym = STAR_ID;
      break;
    case '/':
      sym = SLASH_ID;
      break;
    case '&':
      sym = AMP_ID;
      break;
    case '|':
      sym = BAR_ID;
      break;
    case '=':
      sym = EQ_ID;
      break;
    case '>':
      sym = GT_ID;
      break;
    case '<':
      sym = LT_ID;
      break;
    case '!':
      sym = BANG_ID;
      break;
    case '^':
      sym = CARET_ID;
      break;
    }
    if (sym < 0)
      return false;
    out.push_back({sym, ""});
    ++i;
  }
  return true;
}

static std::string tok_str(const RTok &t) { return std::to_string(t.sym) + (t.text.empty() ? "" : "(" + t.text + ")"); }
static std::string toks_str(const std::vector<RTok> &v)
{
  std::string s;
  for (auto &t : v)
    s += tok_str(t) + " ";
  return s;
}

// real lexer -> same representation; returns false if it raised an error
static bool real_lex(const std::string &s, std::vector<RTok> &out, std::string &err)
{
  std::stringstream ss(s);
  try
  {
    lexer lx(ss);
    for (int guard = 0; guard < 100000; ++guard)
    {
      token *t = lx.next();
      if (!t)
      {
        err = "null token";
        return false;
      }
      int sym = t->sym;
      RTok r{sym, ""};
      if (sym == ID_ID)
      {
        r.text = static_cast<id_token *>(t)->id;
        if (r.text == "this")
          r.text = "this"; // 'this' is resolved through the environment: an identifier is what the parser expects
      }
      else if (sym == THIS_ID)
      {
        r.sym = ID_ID;
        r.text = "this";
      }
      else if (sym == BoolLiteral_ID)
        r.text = static_cast<bool_token *>(t)->val ? "true" : "false";
      else if (sym == IntLiteral_ID)
        r.text = std::to_string(static_cast<int_token *>(t)->val);
      else if (sym == RealLiteral_ID)
      {
        auto v = static_cast<real_token *>(t)->val;
        r.text = std::to_string(v.numerator()) + "/" + std::to_string(v.denominator());
      }
      else if (sym == StringLiteral_ID)
        r.text = static_cast<string_token *>(t)->str;
      delete t;
      if (sym == EOF_ID)
        return true;
      out.push_back(r);
    }
    err = "more than 100000 tokens";
    return false;
  }
  catch (const std::exception &e)
  {
    err = e.what();
    return false;
  }
}

static std::string printable(const std::string &s)
{
  std::string o;
  char buf[8];
  for (unsigned char c : s)
    if (c == '\n')
      o += "\\n";
    else if (c == '\t')
      o += "\\t";
    else if (c == '\r')
      o += "\\r";
    else if (c == '\\')
      o += "\\\\";
    else if (c < 0x20 || c >= 0x7f)
    {
      std::snprintf(buf, sizeof buf, "\\x%02x", c);
      o += buf;
    }
    else
      o += (char)c;
  return o;
}
static std::string unprintable(const std::string &s)
{
  std::string o;
  for (size_t i = 0; i < s.size(); ++i)
    if (s[i] == '\\' && i + 1 < s.size())
    {
      ++i;
      if (s[i] == 'n')
        o += '\n';
      else if (s[i] == 't')
        o += '\t';
      else if (s[i] == 'r')
        o += '\r';
      else if (s[i] == 'x' && i + 2 < s.size())
      {
        o += (char)std::strtol(s.substr(i + 1, 2).c_str(), nullptr, 16);
        i += 2;
      }
      else
        o += s[i];
    }
    else
      o += s[i];
  return o;
}

// =================================================================================================
// mode tokens
// =================================================================================================
static std::vector<std::string> ALPHA; // token spellings
static void build_alpha()
{
  for (auto &k : KEYWORDS)
    ALPHA.push_back(k.first);
  for (const char *t : {".", ",", ":", ";", "(", ")", "[", "]", "{", "}", "+", "-", "*", "/", "&", "|", "=", ">", "<", "!", "==", "<=", ">=", "!=", "->", "^"})
    ALPHA.push_back(t);
  for (const char *t : {"x", "ab1", "_a", "this", "true", "false", "7", "07", "1.5", ".5", "1.", "\"s\"", "\"a\\\"b\""})
    ALPHA.push_back(t);
}

static std::string shape_key(const std::string &in, const std::vector<RTok> &exp, const std::vector<RTok> &got, bool ref_ok, bool real_ok)
{
  // name the first token that differs
  if (ref_ok && !real_ok)
    return "valid-text-rejected";
  if (!ref_ok && real_ok)
    return "invalid-text-accepted";
  size_t i = 0;
  while (i < exp.size() && i < got.size() && exp[i].sym == got[i].sym && exp[i].text == got[i].text)
    ++i;
  if (i < exp.size())
  {
    static const char *names[] = {"bool", "int", "real", "tp", "string", "typedef", "enum", "class", "goal", "fact", "predicate", "new", "or", "this", "void", "return", ".", ",", ":", ";", "(", ")", "[", "]", "{", "}", "+", "-", "*", "/", "&", "|", "=", ">", "<", "!", "==", "<=", ">=", "!=", "->", "^", "identifier", "bool-literal", "int-literal", "real-literal", "string-literal", "EOF"};
    return std::string("token-") + names[exp[i].sym] + "-mislexed";
  }
  return "extra-tokens";
}

static uint64_t g_cases = 0;
static void check_tokens(const std::string &in)
{
  std::string txt = "tokens " + printable(in);
  if (!vf::begin_case(txt))
    return;
  ++g_cases;
  std::vector<RTok> exp, got;
  std::string err;
  bool ref_ok = ref_lex(in, exp);
  bool real_ok = real_lex(in, got, err);
  bool same = ref_ok == real_ok && (!ref_ok || toks_str(exp) == toks_str(got));
  if (!same && !(ref_ok == false && real_ok == false))
    vf::finding("C16:lexer:" + shape_key(in, exp, got, ref_ok, real_ok), txt, "expected " + (ref_ok ? toks_str(exp) : std::string("<lexical error>")) + " got " + (real_ok ? toks_str(got) : "<error: " + err + ">"));
  vf::end_case();
  if ((g_cases & 0xffff) == 3)
    vf::sample(txt);
  vf::distinct("token_streams", vf::fnv(toks_str(exp)));
}

static int g_seqlen = 3;
static std::vector<std::string> SEPS = {" ", ""};
static void unit_tokens(uint64_t u)
{
  g_cases = 0;
  if (u == 0)
  { // per-token variants
    for (auto &k : KEYWORDS)
    {
      std::string w = k.first;
      check_tokens(w);
      check_tokens(w.substr(0, w.size() - 1));
      for (const char *x : {"a", "_", "0", "s"})
        check_tokens(w + x);
      for (const char *x : {";", "(", ".", "=", " x", "\n", "\t"})
        check_tokens(w + x);
      check_tokens("x" + w);
      std::string up = w;
      up[0] = (char)std::toupper(up[0]);
      check_tokens(up);
    }
    for (const char *w : {"true", "false", "this", "tru", "fals", "truex", "false_", "thi", "thiss", "t", "f", "v", "vo", "voi", "voidx", "o", "orr", "re", "ret", "rea", "fa", "fac", "ty", "typ", "st", "n", "ne", "i", "in", "b", "bo", "g", "go", "e", "en", "c", "cl", "p", "pr"})
      check_tokens(w);
    for (const char *n : {"0", "7", "07", "123", "1.5", "1.50", "01.5", ".5", ".50", "1.", "0.0", "10.25", "3.125", "1.5x", "1x", "1..2", "1.2.3", ".5.", "1 .5", "1. 5"})
      check_tokens(n);
    for (const char *s : {"\"\"", "\"s\"", "\"a b\"", "\"a\\\"b\"", "\"a\\\\\"", "\"//x\"", "\"/*x*/\"", "\"a\" \"b\"", "\"a\"x"})
      check_tokens(s);
    for (const char *c : {"//\n", "// c\nx", "x// c", "x // c\ny", "/**/", "/* c */", "/* c */x", "x/* c */y", "/* * */", "/* / */", "/* ** */", "/***/", "/** c **/", "/* c **/x", "/*/*/", "/* // */x", "// /* \nx", "/* a\nb */x", "x/**/y", "/*\n*/", "a / b", "a /b", "a/ b", "a/b", "a / / b", "a /* c */ / b"})
      check_tokens(c);
    for (const char *c : {"a\rb", "a\r\nb", "\r\n", "\t\t", " ", ""})
      check_tokens(c);
    vf::count("cases", g_cases);
    return;
  }
  // all sequences whose first token is ALPHA[u-1]
  std::vector<size_t> idx(g_seqlen, 0);
  size_t A = ALPHA.size();
  for (int len = 1; len <= g_seqlen; ++len)
  {
    std::vector<size_t> ix(len, 0);
    ix[0] = u - 1;
    while (true)
    {
      for (auto &sep : SEPS)
      {
        if (len == 1 && &sep != &SEPS[0])
          continue;
        std::string in;
        for (int i = 0; i < len; ++i)
          in += (i ? sep : "") + ALPHA[ix[i]];
        check_tokens(in);
      }
      int p = len - 1;
      while (p >= 1 && ++ix[p] == A)
        ix[p--] = 0;
      if (p < 1)
        break;
    }
  }
  vf::count("cases", g_cases);
}

// =================================================================================================
// mode bytes / prefixes: lexer + parser must accept or raise std::exception
// =================================================================================================
static void read_text(const std::string &in, const std::string &txt)
{
  std::stringstream ss(in);
  std::string outcome;
  try
  {
    parser p(ss);
    ast::compilation_unit *cu = p.parse();
    delete cu;
    outcome = "accepted";
  }
  catch (const std::exception &e)
  {
    outcome = "rejected";
  }
  catch (...)
  {
    vf::finding("C18:reader:non-standard-exception", txt, "the reader threw something that is not a std::exception");
    outcome = "weird";
  }
  vf::count(outcome);
}
static const char BYTES[] = {'"', '/', '*', '\\', '\n', 'a', '1', '.', ' ', '=', '(', '{', (char)0xff, 'e'};
static int g_len = 4;
static void unit_bytes(uint64_t u)
{
  // all strings of length 1..g_len whose first byte is BYTES[u]
  uint64_t cases = 0;
  for (int len = 1; len <= g_len; ++len)
  {
    std::vector<int> ix(len, 0);
    ix[0] = (int)u;
    while (true)
    {
      std::string in;
      for (int i = 0; i < len; ++i)
        in += BYTES[ix[i]];
      std::string txt = "bytes " + printable(in);
      if (vf::begin_case(txt))
      {
        ++cases;
        read_text(in, txt);
        vf::end_case();
        if ((cases & 0x3fff) == 5)
          vf::sample(txt);
      }
      int p = len - 1;
      while (p >= 1 && ++ix[p] == (int)sizeof(BYTES))
        ix[p--] = 0;
      if (p < 1)
        break;
    }
  }
  if (u == 0)
  {
    std::string txt = "bytes ";
    if (vf::begin_case(txt))
    {
      ++cases;
      read_text("", txt);
      vf::end_case();
    }
    // oversized numerals
    for (const char *n : {"99999999999999999999", "1.99999999999999999999", "real x = 123456789012345678901234567890;", "0.0000000000000000000001"})
    {
      std::string t2 = std::string("bytes ") + n;
      if (vf::begin_case(t2))
      {
        ++cases;
        read_text(n, t2);
        vf::end_case();
      }
    }
  }
  vf::count("cases", cases);
}

// ---- JSON input (smt/json): every byte string over a JSON alphabet through json::from_json ------------------
static const char JBYTES[] = {'{', '}', '[', ']', '"', ':', ',', '1', '-', '.', 'e', 't', 'n', ' ', '\\', 'a'};
static void read_json(const std::string &in, const std::string &txt)
{
  std::stringstream ss(in);
  std::string outcome;
  try
  {
    smt::json j = smt::json::from_json(ss);
    std::stringstream os;
    j.to_json(os);
    outcome = "accepted";
  }
  catch (const std::exception &e)
  {
    outcome = "rejected";
  }
  catch (...)
  {
    vf::finding("C18:json:non-standard-exception", txt, "json::from_json threw something that is not a std::exception");
    outcome = "weird";
  }
  vf::count(outcome);
}
static void unit_json(uint64_t u)
{
  uint64_t cases = 0;
  for (int len = 1; len <= g_len; ++len)
  {
    std::vector<int> ix(len, 0);
    ix[0] = (int)u;
    while (true)
    {
      std::string in;
      for (int i = 0; i < len; ++i)
        in += JBYTES[ix[i]];
      std::string txt = "json " + printable(in);
      if (vf::begin_case(txt))
      {
        ++cases;
        read_json(in, txt);
        vf::end_case();
        if ((cases & 0x3fff) == 5)
          vf::sample(txt);
      }
      int p = len - 1;
      while (p >= 1 && ++ix[p] == (int)sizeof(JBYTES))
        ix[p--] = 0;
      if (p < 1)
        break;
    }
  }
  if (u == 0)
    for (const char *n : {"", "{\"a\":1,\"b\":[true,false,null,\"s\",-1.5e3]}", "{\"a\":{\"b\":{\"c\":[[[]]]}}}", "99999999999999999999", "1e999", "[1,2", "{\"a\"", "{\"a\":", "\"abc", "tru", "nul", "fals"})
    {
      std::string t2 = std::string("json ") + printable(n);
      if (vf::begin_case(t2))
      {
        ++cases;
        read_json(n, t2);
        vf::end_case();
      }
    }
  vf::count("cases", cases);
}

// ---- JSON handles (smt/json): every sequence of <= 4 handle operations on two handles ---------------------------
// ops: 0 a = parse(D1)   1 a = b   2 b = a   3 a = a->get("k")   4 b = a->get("k")   5 a = b->get("k")   6 b = b->get("k")
//      7 a = a            8 json c(a) (copy-construct and destroy)
// after the sequence both handles are printed; the oracle is the sanitizer (dbg build) / a crash (rel build)
static const int N_JOPS = 9;
static void json_api_case(const std::vector<int> &ops, const std::string &txt)
{
  static const char *D1 = "{\"k\": {\"k\": {\"k\": 1, \"m\": [1, 2]}, \"m\": \"s\"}, \"m\": [true, null]}";
  static const char *D2 = "{\"k\": {\"k\": [3]}, \"n\": 2.5}";
  std::stringstream s1(D1), s2(D2);
  smt::json a = smt::json::from_json(s1), b = smt::json::from_json(s2);
  for (int op : ops)
    switch (op)
    {
    case 0:
    {
      std::stringstream s3(D1);
      a = smt::json::from_json(s3);
      break;
    }
    case 1:
      a = b;
      break;
    case 2:
      b = a;
      break;
    case 3:
      if (a->has("k"))
        a = a->get("k");
      break;
    case 4:
      if (a->has("k"))
        b = a->get("k");
      break;
    case 5:
      if (b->has("k"))
        a = b->get("k");
      break;
    case 6:
      if (b->has("k"))
        b = b->get("k");
      break;
    case 7:
      a = a;
      break;
    case 8:
    {
      smt::json c(a);
      std::stringstream os;
      c.to_json(os);
      break;
    }
    }
  std::stringstream os;
  a.to_json(os);
  b.to_json(os);
  vf::count(os.str().empty() ? "rejected" : "accepted");
  (void)txt;
}
static void unit_jsonapi(uint64_t u)
{
  uint64_t cases = 0;
  for (int len = 1; len <= g_len; ++len)
  {
    std::vector<int> ix(len, 0);
    ix[0] = (int)u;
    while (true)
    {
      std::string txt = "jsonapi";
      for (int x : ix)
        txt += " " + std::to_string(x);
      if (vf::begin_case(txt))
      {
        ++cases;
        json_api_case(ix, txt);
        vf::end_case();
        if ((cases & 0xff) == 5)
          vf::sample(txt);
      }
      int p = len - 1;
      while (p >= 1 && ++ix[p] == N_JOPS)
        ix[p--] = 0;
      if (p < 1)
        break;
    }
  }
  vf::count("cases", cases);
}

static std::vector<std::string> g_files;
static void list_files(const std::string &dir)
{
  DIR *d = opendir(dir.c_str());
  if (!d)
    return;
  std::vector<std::string> names;
  while (dirent *e = readdir(d))
    names.push_back(e->d_name);
  closedir(d);
  std::sort(names.begin(), names.end());
  for (auto &n : names)
  {
    if (n == "." || n == "..")
      continue;
    std::string p = dir + "/" + n;
    struct stat st;
    if (stat(p.c_str(), &st) != 0)
      continue;
    if (S_ISDIR(st.st_mode))
      list_files(p);
    else if (n.size() > 5 && n.substr(n.size() - 5) == ".rddl")
      g_files.push_back(p);
  }
}
static int g_stride = 1;
static void unit_prefixes(uint64_t u)
{
  std::ifstream f(g_files[u], std::ios::binary);
  std::stringstream buf;
  buf << f.rdbuf();
  std::string all = buf.str();
  uint64_t cases = 0;
  for (size_t n = 0; n <= all.size(); n += (n < 600 ? 1 : g_stride))
  {
    std::string txt = "prefix " + g_files[u] + " " + std::to_string(n);
    if (!vf::begin_case(txt))
      continue;
    ++cases;
    read_text(all.substr(0, n), txt);
    vf::end_case();
    if (n == 17)
      vf::sample(txt);
  }
  // the whole file must be accepted
  {
    std::string txt = "prefix " + g_files[u] + " " + std::to_string(all.size());
    std::stringstream ss(all);
    try
    {
      parser p(ss);
      delete p.parse();
    }
    catch (const std::exception &e)
    {
      vf::finding("C16:parser:example-file-rejected", txt, std::string("the shipped example does not parse: ") + e.what());
    }
  }
  vf::count("cases", cases);
}

// =================================================================================================
// mode parse: expression trees rendered to text; the AST built by the real parser must be the tree
// =================================================================================================
// The real parser creates every node through a virtual factory; this subclass records an
// S-expression per node.
struct CapParser : parser
{
  mutable std::map<const void *, std::string> sx;
  mutable std::vector<std::string> stmts; // top-level statements in order
  CapParser(std::istream &is) : parser(is) {}
  std::string S(const void *p) const
  {
    auto it = sx.find(p);
    return it == sx.end() ? "?" : it->second;
  }
  static std::string ids(const std::vector<id_token> &v)
  {
    std::string s;
    for (size_t i = 0; i < v.size(); ++i)
      s += (i ? "." : "") + v[i].id;
    return s;
  }
  std::string list(const char *op, const std::vector<const ast::expression *> &es) const
  {
    std::string s = std::string("(") + op;
    for (auto e : es)
      s += " " + S(e);
    return s + ")";
  }
#define REC(ptr, str)  \
  auto *n__ = (ptr);   \
  sx[n__] = (str);     \
  return n__;
  ast::bool_literal_expression *new_bool_literal_expression(const bool_token &l) const noexcept override { REC(new ast::bool_literal_expression(l), l.val ? "true" : "false") }
  ast::int_literal_expression *new_int_literal_expression(const int_token &l) const noexcept override { REC(new ast::int_literal_expression(l), std::to_string(l.val)) }
  ast::real_literal_expression *new_real_literal_expression(const real_token &l) const noexcept override { REC(new ast::real_literal_expression(l), std::to_string(l.val.numerator()) + "/" + std::to_string(l.val.denominator())) }
  ast::string_literal_expression *new_string_literal_expression(const string_token &l) const noexcept override { REC(new ast::string_literal_expression(l), "\"" + l.str + "\"") }
  ast::cast_expression *new_cast_expression(const std::vector<id_token> &tp, const ast::expression *const e) const noexcept override { REC(new ast::cast_expression(tp, e), "(cast " + ids(tp) + " " + S(e) + ")") }
  ast::plus_expression *new_plus_expression(const ast::expression *const e) const noexcept override { REC(new ast::plus_expression(e), "(u+ " + S(e) + ")") }
  ast::minus_expression *new_minus_expression(const ast::expression *const e) const noexcept override { REC(new ast::minus_expression(e), "(u- " + S(e) + ")") }
  ast::not_expression *new_not_expression(const ast::expression *const e) const noexcept override { REC(new ast::not_expression(e), "(! " + S(e) + ")") }
  ast::constructor_expression *new_constructor_expression(const std::vector<id_token> &it, const std::vector<const ast::expression *> &es) const noexcept override { REC(new ast::constructor_expression(it, es), list(("new:" + ids(it)).c_str(), es)) }
  ast::eq_expression *new_eq_expression(const ast::expression *const l, const ast::expression *const r) const noexcept override { REC(new ast::eq_expression(l, r), "(== " + S(l) + " " + S(r) + ")") }
  ast::neq_expression *new_neq_expression(const ast::expression *const l, const ast::expression *const r) const noexcept override { REC(new ast::neq_expression(l, r), "(!= " + S(l) + " " + S(r) + ")") }
  ast::lt_expression *new_lt_expression(const ast::expression *const l, const ast::expression *const r) const noexcept override { REC(new ast::lt_expression(l, r), "(< " + S(l) + " " + S(r) + ")") }
  ast::leq_expression *new_leq_expression(const ast::expression *const l, const ast::expression *const r) const noexcept override { REC(new ast::leq_expression(l, r), "(<= " + S(l) + " " + S(r) + ")") }
  ast::geq_expression *new_geq_expression(const ast::expression *const l, const ast::expression *const r) const noexcept override { REC(new ast::geq_expression(l, r), "(>= " + S(l) + " " + S(r) + ")") }
  ast::gt_expression *new_gt_expression(const ast::expression *const l, const ast::expression *const r) const noexcept override { REC(new ast::gt_expression(l, r), "(> " + S(l) + " " + S(r) + ")") }
  ast::function_expression *new_function_expression(const std::vector<id_token> &is, const id_token &fn, const std::vector<const ast::expression *> &es) const noexcept override { REC(new ast::function_expression(is, fn, es), list(("call:" + (is.empty() ? "" : ids(is) + ".") + fn.id).c_str(), es)) }
  ast::id_expression *new_id_expression(const std::vector<id_token> &is) const noexcept override { REC(new ast::id_expression(is), ids(is)) }
  ast::implication_expression *new_implication_expression(const ast::expression *const l, const ast::expression *const r) const noexcept override { REC(new ast::implication_expression(l, r), "(-> " + S(l) + " " + S(r) + ")") }
  ast::disjunction_expression *new_disjunction_expression(const std::vector<const ast::expression *> &es) const noexcept override { REC(new ast::disjunction_expression(es), list("|", es)) }
  ast::conjunction_expression *new_conjunction_expression(const std::vector<const ast::expression *> &es) const noexcept override { REC(new ast::conjunction_expression(es), list("&", es)) }
  ast::exct_one_expression *new_exct_one_expression(const std::vector<const ast::expression *> &es) const noexcept override { REC(new ast::exct_one_expression(es), list("^", es)) }
  ast::addition_expression *new_addition_expression(const std::vector<const ast::expression *> &es) const noexcept override { REC(new ast::addition_expression(es), list("+", es)) }
  ast::subtraction_expression *new_subtraction_expression(const std::vector<const ast::expression *> &es) const noexcept override { REC(new ast::subtraction_expression(es), list("-", es)) }
  ast::multiplication_expression *new_multiplication_expression(const std::vector<const ast::expression *> &es) const noexcept override { REC(new ast::multiplication_expression(es), list("*", es)) }
  ast::division_expression *new_division_expression(const std::vector<const ast::expression *> &es) const noexcept override { REC(new ast::division_expression(es), list("/", es)) }
  // statements that carry the expression under test
  ast::expression_statement *new_expression_statement(const ast::expression *const e) const noexcept override { REC(new ast::expression_statement(e), "(stmt " + S(e) + ")") }
  ast::local_field_statement *new_local_field_statement(const std::vector<id_token> &ft, const std::vector<id_token> &ns, const std::vector<const ast::expression *> &es) const noexcept override
  {
    std::string s = "(local " + ids(ft);
    for (size_t i = 0; i < ns.size(); ++i)
      s += " " + ns[i].id + "=" + (es[i] ? S(es[i]) : "_");
    REC(new ast::local_field_statement(ft, ns, es), s + ")")
  }
  ast::assignment_statement *new_assignment_statement(const std::vector<id_token> &is, const id_token &i, const ast::expression *const e) const noexcept override { REC(new ast::assignment_statement(is, i, e), "(assign " + (is.empty() ? "" : ids(is) + ".") + i.id + " " + S(e) + ")") }
  ast::return_statement *new_return_statement(const ast::expression *const e) const noexcept override { REC(new ast::return_statement(e), "(return " + S(e) + ")") }
  ast::formula_statement *new_formula_statement(const bool &isf, const id_token &fn, const std::vector<id_token> &scp, const id_token &pn, const std::vector<std::pair<const id_token, const ast::expression *const>> &assns) const noexcept override
  {
    std::string s = std::string("(") + (isf ? "fact " : "goal ") + fn.id + " " + (scp.empty() ? "" : ids(scp) + ".") + pn.id;
    for (auto &[n, e] : assns)
      s += " " + n.id + ":" + S(e);
    REC(new ast::formula_statement(isf, fn, scp, pn, assns), s + ")")
  }
  ast::conjunction_statement *new_conjunction_statement(const std::vector<const ast::statement *> &st) const noexcept override
  {
    std::string s = "(block";
    for (auto x : st)
      s += " " + S(x);
    REC(new ast::conjunction_statement(st), s + ")")
  }
  ast::disjunction_statement *new_disjunction_statement(const std::vector<std::pair<const std::vector<const ast::statement *>, const ast::expression *const>> &conjs) const noexcept override
  {
    std::string s = "(or";
    for (auto &[st, e] : conjs)
    {
      s += " (";
      for (auto x : st)
        s += S(x) + " ";
      s += (e ? "cost " + S(e) : "") + ")";
    }
    REC(new ast::disjunction_statement(conjs), s + ")")
  }
  ast::variable_declaration *new_variable_declaration(const id_token &n, const ast::expression *const e = nullptr) const noexcept override { REC(new ast::variable_declaration(n, e), n.id + "=" + (e ? S(e) : "_")) }
  ast::field_declaration *new_field_declaration(const std::vector<id_token> &tp, const std::vector<const ast::variable_declaration *> &ds) const noexcept override
  {
    std::string s = "(field " + ids(tp);
    for (auto d : ds)
      s += " " + S(d);
    REC(new ast::field_declaration(tp, ds), s + ")")
  }
  ast::constructor_declaration *new_constructor_declaration(const std::vector<std::pair<const std::vector<id_token>, const id_token>> &pars, const std::vector<std::pair<const id_token, const std::vector<const ast::expression *>>> &il, const std::vector<const ast::statement *> &st) const noexcept override
  {
    std::string s = "(ctor";
    for (auto &[n, es] : il)
    {
      s += " " + n.id + "(";
      for (auto e : es)
        s += S(e) + ",";
      s += ")";
    }
    for (auto x : st)
      s += " " + S(x);
    REC(new ast::constructor_declaration(pars, il, st), s + ")")
  }
  ast::predicate_declaration *new_predicate_declaration(const id_token &n, const std::vector<std::pair<const std::vector<id_token>, const id_token>> &pars, const std::vector<std::vector<id_token>> &pl, const std::vector<const ast::statement *> &st) const noexcept override
  {
    std::string s = "(predicate " + n.id;
    for (auto x : st)
      s += " " + S(x);
    REC(new ast::predicate_declaration(n, pars, pl, st), s + ")")
  }
  ast::method_declaration *new_method_declaration(const std::vector<id_token> &rt, const id_token &n, const std::vector<std::pair<const std::vector<id_token>, const id_token>> &pars, const std::vector<const ast::statement *> &st) const noexcept override
  {
    std::string s = "(method " + (rt.empty() ? std::string("void") : ids(rt)) + " " + n.id;
    for (auto x : st)
      s += " " + S(x);
    REC(new ast::method_declaration(rt, n, pars, st), s + ")")
  }
  ast::class_declaration *new_class_declaration(const id_token &n, const std::vector<std::vector<id_token>> &bcs, const std::vector<const ast::field_declaration *> &fs, const std::vector<const ast::constructor_declaration *> &cs, const std::vector<const ast::method_declaration *> &ms, const std::vector<const ast::predicate_declaration *> &ps, const std::vector<const ast::type_declaration *> &ts) const noexcept override
  {
    std::string s = "(class " + n.id;
    for (auto x : fs)
      s += " " + S(x);
    for (auto x : cs)
      s += " " + S(x);
    for (auto x : ms)
      s += " " + S(x);
    for (auto x : ps)
      s += " " + S(x);
    REC(new ast::class_declaration(n, bcs, fs, cs, ms, ps, ts), s + ")")
  }
  ast::compilation_unit *new_compilation_unit(const std::vector<const ast::method_declaration *> &ms, const std::vector<const ast::predicate_declaration *> &ps, const std::vector<const ast::type_declaration *> &ts, const std::vector<const ast::statement *> &st) const noexcept override
  {
    std::string s = "(cu";
    for (auto x : ts)
      s += " " + S(x);
    for (auto x : ms)
      s += " " + S(x);
    for (auto x : ps)
      s += " " + S(x);
    for (auto x : st)
      s += " " + S(x);
    REC(new ast::compilation_unit(ms, ps, ts, st), s + ")")
  }
#undef REC
};

// ---- expression trees --------------------------------------------------------------------------------
struct Tree
{
  std::string op; // "" for a leaf
  std::string leaf_txt, leaf_sx;
  std::vector<Tree> kids;
  int level() const
  {
    if (op.empty())
      return 5;
    if (op == "u+" || op == "u-" || op == "!")
      return 4;
    if (op == "cast" || op == "call" || op == "new")
      return 5; // always rendered as a primary (casts get their own parentheses)
    if (op == "*" || op == "/")
      return 3;
    if (op == "+" || op == "-")
      return 2;
    if (op == "==" || op == "!=")
      return 0;
    return 1;
  }
  bool nary() const { return op == "+" || op == "-" || op == "*" || op == "/" || op == "|" || op == "&" || op == "^"; }
};
static std::string tree_sx(const Tree &t)
{
  if (t.op.empty())
    return t.leaf_sx;
  if (t.op == "cast")
    return "(cast T " + tree_sx(t.kids[0]) + ")";
  if (t.op == "call")
  {
    std::string s = "(call:o.f";
    for (auto &k : t.kids)
      s += " " + tree_sx(k);
    return s + ")";
  }
  if (t.op == "new")
  {
    std::string s = "(new:T";
    for (auto &k : t.kids)
      s += " " + tree_sx(k);
    return s + ")";
  }
  std::string s = "(" + t.op;
  for (auto &k : t.kids)
    s += " " + tree_sx(k);
  return s + ")";
}
// full = every composite operand in parentheses; otherwise only the parentheses the documented
// precedence (== != < relational/logical < + - < * / < unary) and left-to-right grouping require
static std::string render(const Tree &t, bool full)
{
  if (t.op.empty())
    return t.leaf_txt;
  auto wrap = [&](const Tree &k, bool need)
  {
    std::string s = render(k, full);
    bool composite = !k.op.empty() && k.level() < 5;
    return (need || (full && composite)) ? "( " + s + " )" : s;
  };
  if (t.op == "cast") // the operand is not parenthesised when it is a single name: "(T) (a)" is itself ambiguous with a cast to 'a'
    return t.kids[0].op.empty() ? "( ( T ) " + render(t.kids[0], full) + " )" : "( ( T ) ( " + render(t.kids[0], full) + " ) )";
  if (t.op == "call" || t.op == "new")
  {
    std::string s = t.op == "call" ? "o . f (" : "new T (";
    for (size_t i = 0; i < t.kids.size(); ++i)
      s += std::string(i ? " ," : "") + " " + render(t.kids[i], full);
    return s + " )";
  }
  if (t.level() == 4)
  {
    std::string o = t.op == "!" ? "!" : t.op.substr(1);
    return o + " " + wrap(t.kids[0], t.kids[0].level() < 4);
  }
  std::string s;
  for (size_t i = 0; i < t.kids.size(); ++i)
  {
    const Tree &k = t.kids[i];
    bool need;
    if (i == 0)
      need = k.level() < t.level() || (k.level() == t.level() && t.nary() && k.op == t.op); // same n-ary operator would be flattened
    else
      need = k.level() <= t.level();
    if (t.level() == 0 && i == 0)
      need = k.level() < 0 ? true : (k.level() == 0 ? false : need);
    s += (i ? " " + t.op + " " : "") + wrap(k, need);
  }
  return s;
}

static std::vector<Tree> LEAVES;
static void build_leaves()
{
  auto L = [](const char *t, const char *s)
  {
    Tree x;
    x.leaf_txt = t;
    x.leaf_sx = s;
    return x;
  };
  LEAVES = {L("a", "a"), L("2", "2"), L("0.5", "1/2"), L("o . g", "o.g"), L("true", "true")};
}
static const char *BINOPS[] = {"==", "!=", "<", "<=", ">=", ">", "->", "|", "&", "^", "+", "-", "*", "/"};
static const char *UNOPS[] = {"u+", "u-", "!"};

static std::vector<Tree> level1(const std::vector<Tree> &leaves, bool ternary)
{
  std::vector<Tree> out;
  for (auto u : UNOPS)
    for (auto &l : leaves)
      out.push_back(Tree{u, "", "", {l}});
  for (auto o : BINOPS)
  {
    for (auto &a : leaves)
      for (auto &b : leaves)
        out.push_back(Tree{o, "", "", {a, b}});
    Tree probe{o, "", "", {}};
    if (ternary && probe.nary())
      for (auto &a : leaves)
        for (auto &b : leaves)
          for (auto &c : leaves)
            out.push_back(Tree{o, "", "", {a, b, c}});
  }
  for (auto &l : leaves)
  {
    out.push_back(Tree{"cast", "", "", {l}});
    out.push_back(Tree{"call", "", "", {l}});
    out.push_back(Tree{"new", "", "", {l, l}});
  }
  out.push_back(Tree{"call", "", "", {}});
  return out;
}

static std::vector<Tree> g_trees;
static std::vector<std::pair<std::string, std::string>> PLACES; // (text with %s, expected sx with %s)
static std::string subst(const std::string &pat, const std::string &x)
{
  size_t p = pat.find("%s");
  return pat.substr(0, p) + x + pat.substr(p + 2);
}
static void parse_case(const Tree &t, bool full, size_t place)
{
  std::string text = subst(PLACES[place].first, render(t, full));
  std::string txt = "parse " + printable(text);
  if (!vf::begin_case(txt))
    return;
  ++g_cases;
  std::string exp = subst(PLACES[place].second, tree_sx(t));
  std::stringstream ss(text);
  std::string got;
  try
  {
    CapParser p(ss);
    ast::compilation_unit *cu = p.parse();
    got = p.S(cu);
    delete cu;
  }
  catch (const std::exception &e)
  {
    got = std::string("<syntax error: ") + e.what() + ">";
  }
  if (got != exp)
  {
    std::string key;
    if (got[0] == '<')
      key = "C16:parser:valid-program-rejected:" + std::string(t.op.empty() ? "leaf" : t.op) + (place ? ":placement-" + std::to_string(place) : "");
    else
      key = "C16:parser:wrong-grouping:" + t.op + "-over-" + (t.kids.empty() || t.kids[0].op.empty() ? (t.kids.size() > 1 && !t.kids[1].op.empty() ? t.kids[1].op : "leaf") : t.kids[0].op);
    vf::finding(key, txt, "expected " + exp + " got " + got);
  }
  vf::end_case();
  vf::distinct("asts", vf::fnv(exp));
  if ((g_cases & 0x3fff) == 9)
    vf::sample(txt);
}
static bool g_parse_thorough = false;
static void unit_parse(uint64_t u)
{
  g_cases = 0;
  // unit u: trees whose index % units == u
  for (size_t i = u; i < g_trees.size(); i += 64)
  {
    const Tree &t = g_trees[i];
    bool shallow = t.op.empty() || std::all_of(t.kids.begin(), t.kids.end(), [](const Tree &k)
                                               { return k.op.empty(); });
    for (int full = 0; full < 2; ++full)
    {
      parse_case(t, full, 0);
      if (shallow || g_parse_thorough)
        for (size_t pl = 1; pl < PLACES.size(); ++pl)
          parse_case(t, full, pl);
    }
  }
  vf::count("cases", g_cases);
}
static void build_parse(bool th)
{
  g_parse_thorough = th;
  build_leaves();
  PLACES = {
      {"bool z = %s ;", "(cu (local bool z=%s))"},
      {"%s ;", "(cu (stmt %s))"},
      {"{ %s ; }", "(cu (block (stmt %s)))"},
      {"{ %s ; } or { b ; }", "(cu (or ((stmt %s) ) ((stmt b) )))"},
      {"fact f = new P ( x : %s ) ;", "(cu (fact f P x:%s))"},
      {"goal g = new o . P ( x : %s , y : b ) ;", "(cu (goal g o.P x:%s y:b))"},
      {"class C { real f = %s ; }", "(cu (class C (field real f=%s)))"},
      {"class C { real f ; C ( ) : f ( %s ) { } }", "(cu (class C (field real f=_) (ctor f(%s,))))"},
      {"class C { C ( ) { %s ; } }", "(cu (class C (ctor (stmt %s))))"},
      {"predicate P ( real x ) { %s ; }", "(cu (predicate P (stmt %s)))"},
      {"void m ( real x ) { %s ; }", "(cu (method void m (stmt %s)))"},
      {"T m ( real x ) { return %s ; }", "(cu (method T m (return %s)))"},
      {"z = %s ;", "(cu (assign z %s))"},
      {"{ b ; } [ %s ] or { c ; }", "(cu (or ((stmt b) cost %s) ((stmt c) )))"},
  };
  for (auto &l : LEAVES)
    g_trees.push_back(l);
  auto l1 = level1(LEAVES, true);
  for (auto &t : l1)
    g_trees.push_back(t);
  // depth 2: operands from a reduced depth-1 set
  std::vector<Tree> small_leaves(LEAVES.begin(), LEAVES.begin() + (th ? 3 : 2));
  std::vector<Tree> ops1 = level1(small_leaves, th);
  std::vector<Tree> pool = small_leaves;
  for (auto &t : ops1)
    pool.push_back(t);
  for (auto u : UNOPS)
    for (auto &k : ops1)
      g_trees.push_back(Tree{u, "", "", {k}});
  for (auto o : BINOPS)
    for (auto &a : pool)
      for (auto &b : pool)
      {
        if (a.op.empty() && b.op.empty())
          continue;
        g_trees.push_back(Tree{o, "", "", {a, b}});
      }
  for (auto &k : ops1)
  {
    g_trees.push_back(Tree{"cast", "", "", {k}});
    g_trees.push_back(Tree{"call", "", "", {k, small_leaves[0]}});
  }
}

// =================================================================================================
int main(int argc, char **argv)
{
  vf::Args args(argc, argv);
  std::string mode = args.get("mode", "tokens");
  std::string tier = args.get("tier", "quick");
  bool th = tier == "thorough";
  build_alpha();
  std::string repo = args.get("repo", "/repo");
  if (args.has("replay"))
  {
    std::string c = args.get("replay");
    size_t sp = c.find(' ');
    std::string kind = c.substr(0, sp), rest = sp == std::string::npos ? "" : c.substr(sp + 1);
    if (kind == "tokens")
      check_tokens(unprintable(rest));
    else if (kind == "parse")
    {
      std::string text = unprintable(rest);
      std::stringstream ss(text);
      try
      {
        CapParser p(ss);
        ast::compilation_unit *cu = p.parse();
        std::printf("AST %s\n", p.S(cu).c_str());
      }
      catch (const std::exception &e)
      {
        std::printf("syntax error: %s\n", e.what());
      }
      // judged by re-enumeration: find the tree whose rendering is this text
      build_parse(tier == "thorough");
      vf::st().replay_text = c;
      for (uint64_t u = 0; u < 64; ++u)
        unit_parse(u);
    }
    else if (kind == "bytes")
      read_text(unprintable(rest), c);
    else if (kind == "json")
      read_json(unprintable(rest), c);
    else if (kind == "jsonapi")
    {
      std::vector<int> ops;
      std::stringstream is(rest);
      int x;
      while (is >> x)
        ops.push_back(x);
      json_api_case(ops, c);
    }
    else if (kind == "prefix")
    {
      size_t sp2 = rest.rfind(' ');
      std::ifstream f(rest.substr(0, sp2), std::ios::binary);
      std::stringstream buf;
      buf << f.rdbuf();
      read_text(buf.str().substr(0, std::atol(rest.substr(sp2 + 1).c_str())), c);
    }
    for (auto &[k, f] : vf::st().sink.findings)
      std::printf("REPRODUCED key=%s\n  %s\n", k.c_str(), f.msg.c_str());
    return vf::st().sink.findings.empty() ? 0 : 1;
  }
  vf::Options opt;
  opt.jobs = (int)args.num("jobs", 16);
  opt.case_limit_ms = 400;
  opt.rlimit_as_mb = 1024;
  opt.max_dead_cases = 60;
  long dl = args.num("deadline_s", 0);
  if (dl)
    opt.deadline_ms = vf::now_ms() + (uint64_t)dl * 1000;
  uint64_t n_units = 0;
  std::function<void(uint64_t)> fn;
  if (mode == "tokens")
  {
    g_seqlen = th ? 4 : 3;
    if (th)
      SEPS = {" ", "", "\n", "/*c*/", " //c\n"};
    n_units = ALPHA.size() + 1;
    fn = unit_tokens;
    opt.rlimit_as_mb = 8192;
    opt.crash_key = [](uint64_t, const std::string &text, const std::string &what)
    {
      std::string in = unprintable(text.substr(7));
      std::string shape = in.find("/*") != std::string::npos ? "multi-line-comment" : in.find("//") != std::string::npos ? "single-line-comment"
                                                                                 : in.find('"') != std::string::npos    ? "string-literal"
                                                                                                                        : "other";
      return "C16:lexer:" + std::string(what == "hang" ? "hang" : "abort") + "-in-" + shape;
    };
  }
  else if (mode == "parse")
  {
    build_parse(th);
    n_units = 64;
    fn = unit_parse;
    // the reader does not free its tokens and a worker of the thorough tier parses several million texts and keeps their
    // AST hashes: the per-process limit only guards against runaway growth (1 GB made workers die of bad_alloc)
    opt.rlimit_as_mb = 8192;
    opt.crash_key = [](uint64_t, const std::string &, const std::string &what)
    { return "C16:parser:" + std::string(what == "hang" ? "hang" : "abort") + "-on-valid-program"; };
  }
  else if (mode == "jsonapi")
  {
    g_len = th ? 5 : 4;
    n_units = N_JOPS;
    fn = unit_jsonapi;
    opt.crash_key = [](uint64_t, const std::string &, const std::string &what)
    { return "C18:json:" + std::string(what == "hang" ? "hang" : "abort") + ":handle-operations"; };
  }
  else if (mode == "json")
  {
    g_len = th ? 6 : 5;
    n_units = sizeof(JBYTES);
    fn = unit_json;
    opt.crash_key = [](uint64_t, const std::string &text, const std::string &what)
    {
      std::string in = unprintable(text.substr(5));
      std::string shape = in.find('"') != std::string::npos ? "string" : in.find_first_of("{[") != std::string::npos ? "container"
                                                                      : in.find_first_of("0123456789-.") != std::string::npos ? "number"
                                                                                                                              : "other";
      return "C18:json:" + std::string(what == "hang" ? "hang" : "abort") + ":" + shape;
    };
  }
  else if (mode == "bytes")
  {
    g_len = th ? 6 : 5;
    n_units = sizeof(BYTES);
    fn = unit_bytes;
    opt.crash_key = [](uint64_t, const std::string &text, const std::string &what)
    {
      std::string in = unprintable(text.substr(6));
      std::string shape = in.find("/*") != std::string::npos ? "unterminated-multi-line-comment" : in.find('"') != std::string::npos ? "unterminated-string-literal"
                                                                                               : in.find_first_of("0123456789") != std::string::npos ? "numeral"
                                                                                                                                                     : "other";
      return "C18:reader:" + std::string(what == "hang" ? "hang" : "abort") + ":" + shape;
    };
  }
  else
  {
    list_files(repo + "/examples");
    g_stride = th ? 1 : 7;
    // the reader does not free tokens/AST of a rejected text; a worker handles ~10^4 prefixes of one
    // file, so the per-process limit must leave room for that (it only guards against runaway growth)
    opt.rlimit_as_mb = 8192;
    n_units = g_files.size();
    fn = unit_prefixes;
    opt.crash_key = [](uint64_t, const std::string &text, const std::string &what)
    { return "C18:reader:" + std::string(what == "hang" ? "hang" : "abort") + ":truncated-example"; };
  }
#if defined(__SANITIZE_ADDRESS__) || defined(__SANITIZE_THREAD__)
  opt.rlimit_as_mb = 0; // the sanitizer runtime needs its shadow mappings; runaway growth is caught by the time limit
  opt.case_limit_ms *= 3;
#endif
  uint64_t t0 = vf::now_ms();
  vf::RunResult rr = vf::run_units(n_units, fn, opt);
  std::map<std::string, std::string> extra;
  extra["wall_ms"] = std::to_string(vf::now_ms() - t0);
  extra["units"] = std::to_string(n_units);
  extra["stopped_early"] = rr.stopped_early ? "true" : "false";
  vf::write_result(args.get("out", "/dev/stdout"), rr.exhaustive, extra);
  return 0;
}
