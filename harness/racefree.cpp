// C20, race-freedom pass: the same scenarios as schedmc run FREE (real pthreads, no controlled scheduler)
// on the library built with PARALLELIZE and ThreadSanitizer.  A serialising scheduler hides unsynchronised
// accesses (its hand-offs are happens-before edges), so data races are looked for here instead.
//   racefree --expect FILE --reps N
// exit 0: no report and every end state equals the sequential one; TSan makes the process exit 66 on a report.
#include "pivot_scen.h"
#include <fstream>
#include <iostream>
#include <map>

static unsigned g_pool = 2;
unsigned int std::thread::hardware_concurrency() noexcept { return g_pool; }

int main(int argc, char **argv)
{
  std::string expect;
  int reps = 50;
  for (int i = 1; i < argc; ++i)
  {
    std::string a = argv[i];
    if (a == "--expect")
      expect = argv[++i];
    else if (a == "--reps")
      reps = std::atoi(argv[++i]);
  }
  std::map<int, std::string> exp;
  {
    std::ifstream f(expect);
    std::string line;
    while (std::getline(f, line))
    {
      size_t t = line.find('\t');
      if (t != std::string::npos)
        exp[std::atoi(line.substr(0, t).c_str())] = line.substr(t + 1);
    }
  }
  long runs = 0, bad = 0;
  for (unsigned pool = 2; pool <= 4; ++pool)
    for (int sc = 0; sc < scen::N_SCEN; ++sc)
      for (int r = 0; r < reps; ++r)
      {
        g_pool = pool;
        smt::sat_core sat;
        std::string s = scen::run(sc, sat, [](smt::lra_theory &) {});
        ++runs;
        if (s != exp[sc])
        {
          ++bad;
          std::cout << "MISMATCH scenario=" << sc << " pool=" << pool << "\n  parallel:   " << s << "\n  sequential: " << exp[sc] << "\n";
        }
      }
  std::cout << "runs=" << runs << " mismatches=" << bad << "\n";
  return bad ? 1 : 0;
}
