// E1 arith_enum (C15): every operator form of smt::rational, smt::inf_rational and smt::lin on every
// operand of a finite grid, compared with the reference arithmetic of engine/refq.h.
#include "arena.h"
#include "driver.h"
#include "refq.h"
#include "rational.h"
#include "inf_rational.h"
#include "lin.h"
#include <sstream>

using namespace smt;
using ref::Q;
using ref::Qe;

static long N = 6, D = 4;

// ---- operands ---------------------------------------------------------------------------------
struct ROp
{
  I n, d;
  Q q;
  std::string txt;
};
static std::vector<ROp> Rraw, Rval; // all ctor inputs; one representative per value
static std::vector<I> Ints;
struct EOp
{
  ROp r, e;
  Qe q;
  std::string txt;
};
static std::vector<EOp> Eval;
struct LOp
{
  std::vector<int> c; // index into coefficient menu, per variable
  int k;
  std::string txt;
};
static std::vector<LOp> Lval;
static const char *CoefTxt[] = {"-", "-2", "-1", "1", "3/2"};
static const I CoefN[] = {0, -2, -1, 1, 3}, CoefD[] = {1, 1, 1, 1, 2};
static const I ConstK[] = {-1, 0, 2};
struct SOp
{
  I n, d;
  std::string txt;
};
static std::vector<SOp> Scal = {{-2, 1, "-2"}, {-1, 2, "-1/2"}, {0, 1, "0"}, {1, 1, "1"}, {3, 1, "3"}, {2, 3, "2/3"}};

static std::string rtxt(I n, I d) { return "r(" + std::to_string(n) + "," + std::to_string(d) + ")"; }

static void build_operands()
{
  std::set<std::string> seen;
  auto add = [&](I n, I d)
  {
    ROp o{n, d, Q(n, d), rtxt(n, d)};
    Rraw.push_back(o);
    if (seen.insert(ref::str(o.q)).second)
      Rval.push_back(o);
  };
  // canonical spellings first so that the representative of a value is the simplest one
  for (I n = -N; n <= N; ++n)
    add(n, 1);
  for (I d = 2; d <= D; ++d)
    for (I n = -N; n <= N; ++n)
      add(n, d);
  for (I d = -D; d <= -1; ++d)
    for (I n = -N; n <= N; ++n)
      add(n, d);
  add(1, 0);
  add(-1, 0);
  add(2, 0);
  add(-3, 0);
  for (I i = -N; i <= N; ++i)
    Ints.push_back(i);
  // inf_rational operands: a sub-grid; the eps part is 0 when the rational part is infinite
  std::vector<ROp> rs, es;
  for (auto &o : Rval)
  {
    bool small = (o.q.is_inf()) || (ref::zabs(o.q.n) <= 2 && o.q.d <= 3);
    if (small)
      rs.push_back(o);
    if (!o.q.is_inf() && ref::zabs(o.q.n) <= 2 && o.q.d <= 2)
      es.push_back(o);
  }
  for (auto &r : rs)
    for (auto &e : es)
    {
      if (r.q.is_inf() && !e.q.is_zero())
        continue;
      Eval.push_back(EOp{r, e, Qe(r.q, e.q), "e(" + r.txt + "," + e.txt + ")"});
    }
  for (int a = 0; a < 5; ++a)
    for (int b = 0; b < 5; ++b)
      for (int c = 0; c < 5; ++c)
        for (int k = 0; k < 3; ++k)
        {
          LOp l;
          l.c = {a, b, c};
          l.k = k;
          l.txt = std::string("lin{") + CoefTxt[a] + "," + CoefTxt[b] + "," + CoefTxt[c] + ";k=" + std::to_string(ConstK[k]) + "}";
          Lval.push_back(l);
        }
}

static rational mk(const ROp &o) { return rational(o.n, o.d); }
static inf_rational mk(const EOp &o) { return inf_rational(mk(o.r), mk(o.e)); }
static lin mk(const LOp &o)
{
  lin l(rational(ConstK[o.k]));
  for (size_t v = 0; v < o.c.size(); ++v)
    if (o.c[v])
      l.vars.emplace(v, rational(CoefN[o.c[v]], CoefD[o.c[v]]));
  return l;
}
struct RefLin
{
  Q c[3], k;
};
static RefLin rl(const LOp &o)
{
  RefLin r;
  for (size_t v = 0; v < 3; ++v)
    r.c[v] = Q(CoefN[o.c[v]], CoefD[o.c[v]]);
  r.k = Q(ConstK[o.k]);
  return r;
}

// ---- comparison helpers -------------------------------------------------------------------------
static std::string show(const rational &r) { return std::to_string(r.numerator()) + "/" + std::to_string(r.denominator()); }
static std::string show(const inf_rational &r) { return show(r.get_rational()) + " + " + show(r.get_infinitesimal()) + "eps"; }
static std::string show(const lin &l)
{
  std::string s = "{";
  for (auto &[v, c] : l.vars)
    s += "x" + std::to_string(v) + ":" + show(c) + " ";
  return s + "; k=" + show(l.known_term) + "}";
}
static std::string show(const RefLin &l) { return "{x0:" + ref::str(l.c[0]) + " x1:" + ref::str(l.c[1]) + " x2:" + ref::str(l.c[2]) + " ; k=" + ref::str(l.k) + "}"; }

// 0 ok, 1 wrong value, 2 right value but not canonical
static int judge(const rational &got, const Q &exp)
{
  Q g(got.numerator(), got.denominator());
  if (!g.valid || g != exp)
    return 1;
  if ((ref::Z)got.numerator() != exp.n || (ref::Z)got.denominator() != exp.d)
    return 2;
  return 0;
}
static int judge(const inf_rational &got, const Qe &exp)
{
  int a = judge(got.get_rational(), exp.r), b = judge(got.get_infinitesimal(), exp.e);
  return (a == 1 || b == 1) ? 1 : (a || b) ? 2
                                           : 0;
}
static int judge(const lin &got, const RefLin &exp)
{
  int worst = 0;
  for (size_t v = 0; v < 3; ++v)
  {
    auto it = got.vars.find(v);
    int j = it == got.vars.end() ? (exp.c[v].is_zero() ? 0 : 1) : judge(it->second, exp.c[v]);
    worst = std::max(worst, j == 2 ? 2 : j);
    if (j == 1)
      return 1;
  }
  for (auto &[v, c] : got.vars)
    if (v > 2)
      return 1;
  int j = judge(got.known_term, exp.k);
  if (j == 1)
    return 1;
  return std::max(worst, j);
}

static uint64_t n_eval = 0;
static void report(const std::string &form, const std::string &ctext, int j, const std::string &got, const std::string &exp)
{
  if (j)
    vf::finding(form + (j == 1 ? ":wrong" : ":noncanonical"), ctext, "got " + got + " expected " + exp);
}
static void check_bool(const std::string &form, const std::string &ctext, bool got, bool exp)
{
  if (got != exp)
    vf::finding(form + ":wrong", ctext, std::string("got ") + (got ? "true" : "false") + " expected " + (exp ? "true" : "false"));
}

// ---- units ---------------------------------------------------------------------------------------
// A unit is one form applied to all operand pairs; forms are numbered per family.
enum Fam
{
  F_CTOR,
  F_RR,
  F_RI,
  F_IR,
  F_RU,
  F_EE,
  F_ER,
  F_EI,
  F_RE,
  F_IE,
  F_EU,
  F_LL,
  F_LS,
  F_SL,
  F_LU
};
struct Unit
{
  Fam fam;
  int form;
  std::string name;
};
static std::vector<Unit> Units;

static const char *CmpN[] = {"!=", "<", "<=", "==", ">=", ">"};
static const char *AriN[] = {"+", "-", "*", "/"};
template <class A, class B>
static bool do_cmp(int f, const A &a, const B &b)
{
  switch (f)
  {
  case 0:
    return a != b;
  case 1:
    return a < b;
  case 2:
    return a <= b;
  case 3:
    return a == b;
  case 4:
    return a >= b;
  default:
    return a > b;
  }
}
static bool ref_cmp(int f, int c)
{
  switch (f)
  {
  case 0:
    return c != 0;
  case 1:
    return c < 0;
  case 2:
    return c <= 0;
  case 3:
    return c == 0;
  case 4:
    return c >= 0;
  default:
    return c > 0;
  }
}
template <class R, class A, class B>
static R do_ari(int f, const A &a, const B &b)
{
  switch (f)
  {
  case 0:
    return a + b;
  case 1:
    return a - b;
  case 2:
    return a * b;
  default:
    return a / b;
  }
}
template <class A, class B>
static void do_cas(int f, A &a, const B &b, bool &self)
{
  A *p;
  switch (f)
  {
  case 0:
    p = &(a += b);
    break;
  case 1:
    p = &(a -= b);
    break;
  case 2:
    p = &(a *= b);
    break;
  default:
    p = &(a /= b);
    break;
  }
  self = (p == &a);
}
static Q ref_ari(int f, const Q &a, const Q &b) { return f == 0 ? a + b : f == 1 ? a - b
                                                                      : f == 2   ? a * b
                                                                                 : a / b; }

static void build_units()
{
  Units.push_back({F_CTOR, 0, "rational(n,d)"});
  for (int f = 0; f < 6; ++f)
    Units.push_back({F_RR, f, std::string("rational") + CmpN[f] + "rational"});
  for (int f = 0; f < 4; ++f)
    Units.push_back({F_RR, 6 + f, std::string("rational") + AriN[f] + "rational"});
  for (int f = 0; f < 4; ++f)
    Units.push_back({F_RR, 10 + f, std::string("rational") + AriN[f] + "=rational"});
  for (int f = 0; f < 6; ++f)
    Units.push_back({F_RI, f, std::string("rational") + CmpN[f] + "I"});
  for (int f = 0; f < 4; ++f)
    Units.push_back({F_RI, 6 + f, std::string("rational") + AriN[f] + "I"});
  for (int f = 0; f < 4; ++f)
    Units.push_back({F_RI, 10 + f, std::string("rational") + AriN[f] + "=I"});
  for (int f = 0; f < 4; ++f)
    Units.push_back({F_IR, f, std::string("I") + AriN[f] + "rational"});
  Units.push_back({F_RU, 0, "-rational"});
  Units.push_back({F_RU, 1, "rational-predicates"});
  for (int f = 0; f < 6; ++f)
    Units.push_back({F_EE, f, std::string("inf_rational") + CmpN[f] + "inf_rational"});
  for (int f = 0; f < 2; ++f)
    Units.push_back({F_EE, 6 + f, std::string("inf_rational") + AriN[f] + "inf_rational"});
  for (int f = 0; f < 2; ++f)
    Units.push_back({F_EE, 10 + f, std::string("inf_rational") + AriN[f] + "=inf_rational"});
  for (int f = 0; f < 6; ++f)
    Units.push_back({F_ER, f, std::string("inf_rational") + CmpN[f] + "rational"});
  for (int f = 0; f < 4; ++f)
    Units.push_back({F_ER, 6 + f, std::string("inf_rational") + AriN[f] + "rational"});
  for (int f = 0; f < 4; ++f)
    Units.push_back({F_ER, 10 + f, std::string("inf_rational") + AriN[f] + "=rational"});
  for (int f = 0; f < 6; ++f)
    Units.push_back({F_EI, f, std::string("inf_rational") + CmpN[f] + "I"});
  for (int f = 0; f < 4; ++f)
    Units.push_back({F_EI, 6 + f, std::string("inf_rational") + AriN[f] + "I"});
  for (int f = 0; f < 4; ++f)
    Units.push_back({F_EI, 10 + f, std::string("inf_rational") + AriN[f] + "=I"});
  for (int f = 0; f < 4; ++f)
    Units.push_back({F_RE, f, std::string("rational") + AriN[f] + "inf_rational"});
  for (int f = 0; f < 4; ++f)
    Units.push_back({F_IE, f, std::string("I") + AriN[f] + "inf_rational"});
  Units.push_back({F_EU, 0, "-inf_rational"});
  Units.push_back({F_EU, 1, "inf_rational-predicates"});
  for (int f = 0; f < 2; ++f)
    Units.push_back({F_LL, f, std::string("lin") + AriN[f] + "lin"});
  for (int f = 0; f < 2; ++f)
    Units.push_back({F_LL, 2 + f, std::string("lin") + AriN[f] + "=lin"});
  for (int f = 0; f < 4; ++f)
    Units.push_back({F_LS, f, std::string("lin") + AriN[f] + "rational"});
  for (int f = 0; f < 4; ++f)
    Units.push_back({F_LS, 4 + f, std::string("lin") + AriN[f] + "=rational"});
  for (int f = 0; f < 3; ++f)
    Units.push_back({F_SL, f, std::string("rational") + AriN[f] + "lin"});
  Units.push_back({F_LU, 0, "-lin"});
  Units.push_back({F_LU, 1, "lin-ctors"});
}

#define CASE(txt) \
  if (!vf::begin_case(txt)) \
    continue; \
  ++n_eval;

static bool R_finite_nonneg_int(const Q &q) { return !q.is_inf() && q.d == 1; }

static void run_unit(uint64_t ui)
{
  const Unit &U = Units[ui];
  const std::string &nm = U.name;
  n_eval = 0;
  uint64_t nontriv = 0;
  switch (U.fam)
  {
  case F_CTOR:
    for (auto &a : Rraw)
    {
      std::string t = nm + " " + a.txt;
      CASE(t);
      rational r = mk(a);
      report(nm, t, judge(r, a.q), show(r), ref::str(a.q));
      if (a.d != 1)
        ++nontriv;
    }
    for (auto i : Ints)
    {
      std::string t = nm + " i(" + std::to_string(i) + ")";
      CASE(t);
      rational r(i);
      report("rational(n)", t, judge(r, Q(i)), show(r), ref::str(Q(i)));
    }
    break;
  case F_RR:
    for (auto &a : Rval)
      for (auto &b : Rval)
      {
        std::string t = nm + " " + a.txt + " " + b.txt;
        int f = U.form;
        if (f < 6)
        {
          CASE(t);
          check_bool(nm, t, do_cmp(f, mk(a), mk(b)), ref_cmp(f, ref::cmp(a.q, b.q)));
          ++nontriv;
          continue;
        }
        Q e = ref_ari((f - 6) % 4, a.q, b.q);
        if (!e.valid)
          continue; // undefined (inf-inf, 0*inf, x/0, inf/inf)
        CASE(t);
        ++nontriv;
        if (f < 10)
        {
          rational r = do_ari<rational>(f - 6, mk(a), mk(b));
          report(nm, t, judge(r, e), show(r), ref::str(e));
        }
        else
        {
          rational c = mk(a);
          bool self;
          do_cas(f - 10, c, mk(b), self);
          report(nm, t, self ? judge(c, e) : 1, show(c), ref::str(e) + (self ? "" : " (result is not *this)"));
        }
      }
    break;
  case F_RI:
    for (auto &a : Rval)
      for (auto i : Ints)
      {
        std::string t = nm + " " + a.txt + " i(" + std::to_string(i) + ")";
        int f = U.form;
        if (f < 6)
        {
          CASE(t);
          check_bool(nm, t, do_cmp(f, mk(a), i), ref_cmp(f, ref::cmp(a.q, Q(i))));
          ++nontriv;
          continue;
        }
        Q e = ref_ari((f - 6) % 4, a.q, Q(i));
        if (!e.valid)
          continue;
        CASE(t);
        ++nontriv;
        if (f < 10)
        {
          rational r = do_ari<rational>(f - 6, mk(a), i);
          report(nm, t, judge(r, e), show(r), ref::str(e));
        }
        else
        {
          rational c = mk(a);
          bool self;
          do_cas(f - 10, c, i, self);
          report(nm, t, self ? judge(c, e) : 1, show(c), ref::str(e));
        }
      }
    break;
  case F_IR:
    for (auto i : Ints)
      for (auto &b : Rval)
      {
        Q e = ref_ari(U.form, Q(i), b.q);
        if (!e.valid)
          continue;
        std::string t = nm + " i(" + std::to_string(i) + ") " + b.txt;
        CASE(t);
        ++nontriv;
        rational r = do_ari<rational>(U.form, i, mk(b));
        report(nm, t, judge(r, e), show(r), ref::str(e));
      }
    break;
  case F_RU:
    for (auto &a : Rval)
    {
      std::string t = nm + " " + a.txt;
      CASE(t);
      ++nontriv;
      rational x = mk(a);
      if (U.form == 0)
      {
        rational r = -x;
        report(nm, t, judge(r, -a.q), show(r), ref::str(-a.q));
      }
      else
      {
        const Q &q = a.q;
        check_bool("is_integer(rational)", t, is_integer(x), !q.is_inf() && q.d == 1);
        check_bool("is_zero(rational)", t, is_zero(x), q.is_zero());
        check_bool("is_positive(rational)", t, is_positive(x), q.sgn() > 0);
        check_bool("is_positive_or_zero(rational)", t, is_positive_or_zero(x), q.sgn() >= 0);
        check_bool("is_negative(rational)", t, is_negative(x), q.sgn() < 0);
        check_bool("is_negative_or_zero(rational)", t, is_negative_or_zero(x), q.sgn() <= 0);
        check_bool("is_infinite(rational)", t, is_infinite(x), q.is_inf());
        check_bool("is_positive_infinite(rational)", t, is_positive_infinite(x), q.is_inf() && q.sgn() > 0);
        check_bool("is_negative_infinite(rational)", t, is_negative_infinite(x), q.is_inf() && q.sgn() < 0);
      }
    }
    break;
  case F_EE:
    for (auto &a : Eval)
      for (auto &b : Eval)
      {
        std::string t = nm + " " + a.txt + " " + b.txt;
        int f = U.form;
        if (f < 6)
        {
          CASE(t);
          ++nontriv;
          check_bool(nm, t, do_cmp(f, mk(a), mk(b)), ref_cmp(f, ref::cmp(a.q, b.q)));
          continue;
        }
        Qe e = (f - 6) % 4 == 0 ? a.q + b.q : a.q - b.q;
        if (!e.valid())
          continue;
        CASE(t);
        ++nontriv;
        if (f < 10)
        {
          inf_rational r = f == 6 ? mk(a) + mk(b) : mk(a) - mk(b);
          report(nm, t, judge(r, e), show(r), ref::str(e));
        }
        else
        {
          inf_rational c = mk(a);
          inf_rational *p = f == 10 ? &(c += mk(b)) : &(c -= mk(b));
          report(nm, t, p == &c ? judge(c, e) : 1, show(c), ref::str(e));
        }
      }
    break;
  case F_ER:
    for (auto &a : Eval)
      for (auto &b : Rval)
      {
        std::string t = nm + " " + a.txt + " " + b.txt;
        int f = U.form;
        if (f < 6)
        {
          CASE(t);
          ++nontriv;
          check_bool(nm, t, do_cmp(f, mk(a), mk(b)), ref_cmp(f, ref::cmp(a.q, Qe(b.q))));
          continue;
        }
        int o = (f - 6) % 4;
        Qe e = o == 0 ? a.q + Qe(b.q) : o == 1 ? a.q - Qe(b.q)
                                    : o == 2   ? a.q * b.q
                                               : a.q / b.q;
        if (!e.valid())
          continue;
        CASE(t);
        ++nontriv;
        if (f < 10)
        {
          inf_rational r = do_ari<inf_rational>(o, mk(a), mk(b));
          report(nm, t, judge(r, e), show(r), ref::str(e));
        }
        else
        {
          inf_rational c = mk(a);
          bool self;
          do_cas(o, c, mk(b), self);
          report(nm, t, self ? judge(c, e) : 1, show(c), ref::str(e));
        }
      }
    break;
  case F_EI:
    for (auto &a : Eval)
      for (auto i : Ints)
      {
        std::string t = nm + " " + a.txt + " i(" + std::to_string(i) + ")";
        int f = U.form;
        if (f < 6)
        {
          CASE(t);
          ++nontriv;
          check_bool(nm, t, do_cmp(f, mk(a), i), ref_cmp(f, ref::cmp(a.q, Qe(Q(i)))));
          continue;
        }
        int o = (f - 6) % 4;
        Qe e = o == 0 ? a.q + Qe(Q(i)) : o == 1 ? a.q - Qe(Q(i))
                                     : o == 2   ? a.q * Q(i)
                                                : a.q / Q(i);
        if (!e.valid())
          continue;
        CASE(t);
        ++nontriv;
        if (f < 10)
        {
          inf_rational r = do_ari<inf_rational>(o, mk(a), i);
          report(nm, t, judge(r, e), show(r), ref::str(e));
        }
        else
        {
          inf_rational c = mk(a);
          bool self;
          do_cas(o, c, i, self);
          report(nm, t, self ? judge(c, e) : 1, show(c), ref::str(e));
        }
      }
    break;
  case F_RE:
  case F_IE:
  {
    // scalar (op) inf_rational
    std::vector<ROp> left;
    if (U.fam == F_RE)
      left = Rval;
    else
      for (auto i : Ints)
        left.push_back(ROp{i, 1, Q(i), "i(" + std::to_string(i) + ")"});
    for (auto &a : left)
      for (auto &b : Eval)
      {
        int o = U.form;
        Qe e;
        if (o == 0)
          e = Qe(a.q) + b.q;
        else if (o == 1)
          e = Qe(a.q) - b.q;
        else if (o == 2)
          e = b.q * a.q;
        else // dual numbers: a / (b + c eps) = a/b - (a c / b^2) eps
          e = Qe(a.q / b.q.r, -(a.q * b.q.e) / (b.q.r * b.q.r));
        if (!e.valid())
          continue;
        std::string t = nm + " " + a.txt + " " + b.txt;
        CASE(t);
        ++nontriv;
        inf_rational r = U.fam == F_RE ? do_ari<inf_rational>(o, mk(a), mk(b)) : do_ari<inf_rational>(o, a.n, mk(b));
        report(nm, t, judge(r, e), show(r), ref::str(e));
      }
    break;
  }
  case F_EU:
    for (auto &a : Eval)
    {
      std::string t = nm + " " + a.txt;
      CASE(t);
      ++nontriv;
      inf_rational x = mk(a);
      if (U.form == 0)
      {
        inf_rational r = -x;
        report(nm, t, judge(r, -a.q), show(r), ref::str(-a.q));
      }
      else
      {
        int c = ref::cmp(a.q, Qe(Q(0)));
        check_bool("is_zero(inf_rational)", t, is_zero(x), c == 0);
        check_bool("is_positive(inf_rational)", t, is_positive(x), c > 0);
        check_bool("is_positive_or_zero(inf_rational)", t, is_positive_or_zero(x), c >= 0);
        check_bool("is_negative(inf_rational)", t, is_negative(x), c < 0);
        check_bool("is_negative_or_zero(inf_rational)", t, is_negative_or_zero(x), c <= 0);
        check_bool("is_infinite(inf_rational)", t, is_infinite(x), a.q.r.is_inf());
        check_bool("is_positive_infinite(inf_rational)", t, is_positive_infinite(x), a.q.r.is_inf() && c > 0);
        check_bool("is_negative_infinite(inf_rational)", t, is_negative_infinite(x), a.q.r.is_inf() && c < 0);
      }
    }
    break;
  case F_LL:
    if (U.form >= 2)
      for (auto &a : Lval)
      { // the aliased form: the same object on both sides (`c += c`, `c -= c`)
        std::string t = nm + " " + a.txt + " (the same object)";
        CASE(t);
        ++nontriv;
        RefLin ra = rl(a), e;
        bool add = U.form % 2 == 0;
        for (int v = 0; v < 3; ++v)
          e.c[v] = add ? ra.c[v] + ra.c[v] : ra.c[v] - ra.c[v];
        e.k = add ? ra.k + ra.k : ra.k - ra.k;
        lin c = mk(a);
        lin ret = add ? (c += c) : (c -= c);
        int j = std::max(judge(c, e), judge(ret, e));
        report(nm + ":aliased", t, j, show(c) + " returned " + show(ret), show(e));
      }
    for (auto &a : Lval)
      for (auto &b : Lval)
      {
        std::string t = nm + " " + a.txt + " " + b.txt;
        CASE(t);
        ++nontriv;
        RefLin ra = rl(a), rb = rl(b), e;
        bool add = U.form % 2 == 0;
        for (int v = 0; v < 3; ++v)
          e.c[v] = add ? ra.c[v] + rb.c[v] : ra.c[v] - rb.c[v];
        e.k = add ? ra.k + rb.k : ra.k - rb.k;
        if (U.form < 2)
        {
          lin r = add ? mk(a) + mk(b) : mk(a) - mk(b);
          report(nm, t, judge(r, e), show(r), show(e));
        }
        else
        {
          lin c = mk(a);
          lin ret = add ? (c += mk(b)) : (c -= mk(b));
          int j = std::max(judge(c, e), judge(ret, e));
          report(nm, t, j, show(c) + " returned " + show(ret), show(e));
        }
      }
    break;
  case F_LS:
    for (auto &a : Lval)
      for (auto &s : Scal)
      {
        int o = U.form % 4;
        Q sq(s.n, s.d);
        if (o == 3 && sq.is_zero())
          continue;
        std::string t = nm + " " + a.txt + " r(" + s.txt + ")";
        CASE(t);
        ++nontriv;
        RefLin ra = rl(a), e = ra;
        if (o == 0)
          e.k = ra.k + sq;
        else if (o == 1)
          e.k = ra.k - sq;
        else
        {
          for (int v = 0; v < 3; ++v)
            e.c[v] = o == 2 ? ra.c[v] * sq : ra.c[v] / sq;
          e.k = o == 2 ? ra.k * sq : ra.k / sq;
        }
        rational rs(s.n, s.d);
        if (U.form < 4)
        {
          lin r = o == 0 ? mk(a) + rs : o == 1 ? mk(a) - rs
                                    : o == 2   ? mk(a) * rs
                                               : mk(a) / rs;
          report(nm, t, judge(r, e), show(r), show(e));
        }
        else
        {
          lin c = mk(a);
          lin ret = o == 0 ? (c += rs) : o == 1 ? (c -= rs)
                                     : o == 2   ? (c *= rs)
                                                : (c /= rs);
          int j = std::max(judge(c, e), judge(ret, e));
          report(nm, t, j, show(c) + " returned " + show(ret), show(e));
        }
      }
    break;
  case F_SL:
    for (auto &s : Scal)
      for (auto &a : Lval)
      {
        int o = U.form;
        Q sq(s.n, s.d);
        std::string t = nm + " r(" + s.txt + ") " + a.txt;
        CASE(t);
        ++nontriv;
        RefLin ra = rl(a), e;
        for (int v = 0; v < 3; ++v)
          e.c[v] = o == 0 ? ra.c[v] : o == 1 ? -ra.c[v]
                                             : ra.c[v] * sq;
        e.k = o == 0 ? sq + ra.k : o == 1 ? sq - ra.k
                                          : sq * ra.k;
        rational rs(s.n, s.d);
        lin r = o == 0 ? rs + mk(a) : o == 1 ? rs - mk(a)
                                             : rs * mk(a);
        report(nm, t, judge(r, e), show(r), show(e));
      }
    break;
  case F_LU:
    for (auto &a : Lval)
    {
      std::string t = nm + " " + a.txt;
      CASE(t);
      ++nontriv;
      RefLin ra = rl(a), e;
      if (U.form == 0)
      {
        for (int v = 0; v < 3; ++v)
          e.c[v] = -ra.c[v];
        e.k = -ra.k;
        lin r = -mk(a);
        report(nm, t, judge(r, e), show(r), show(e));
      }
      else
      {
        lin l0;
        RefLin z;
        report("lin()", t, judge(l0, z), show(l0), show(z));
        lin l1{rational(ConstK[a.k])};
        z.k = Q(ConstK[a.k]);
        report("lin(rational)", t, judge(l1, z), show(l1), show(z));
        lin l2(1, rational(CoefN[a.c[1]], CoefD[a.c[1]]));
        RefLin y;
        y.c[1] = ra.c[1];
        report("lin(var,rational)", t, judge(l2, y), show(l2), show(y));
      }
    }
    break;
  }
  vf::count("evaluations", n_eval);
  vf::count("nontrivial", nontriv);
  vf::count("forms", 1);
}

int main(int argc, char **argv)
{
  vf::Args args(argc, argv);
  N = args.num("N", 6);
  D = args.num("D", 4);
  build_operands();
  build_units();
  vf::Options opt;
  opt.jobs = (int)args.num("jobs", 16);
  opt.batch = 1;
  opt.case_limit_ms = 5000;
  opt.crash_key = [](uint64_t u, const std::string &text, const std::string &what)
  { return Units[u].name + (what == "hang" ? ":hang" : ":abort"); };
  if (args.has("replay"))
  { // run exactly one case in this process; a crash reproduces as a crash
    std::string target = args.get("replay");
    vf::st().replay_text = target;
    for (uint64_t u = 0; u < Units.size(); ++u)
      if (target.rfind(Units[u].name + " ", 0) == 0)
      {
        vf::st().case_no = 0;
        run_unit(u);
      }
    for (auto &[k, f] : vf::st().sink.findings)
      std::printf("REPRODUCED key=%s msg=%s\n", k.c_str(), f.msg.c_str());
    if (!vf::st().replay_hit)
    {
      std::printf("replay: case not found\n");
      return 2;
    }
    return vf::st().sink.findings.empty() ? 0 : 1;
  }
  uint64_t t0 = vf::now_ms();
  vf::RunResult rr = vf::run_units(Units.size(), run_unit, opt);
  std::map<std::string, std::string> extra;
  extra["N"] = std::to_string(N);
  extra["D"] = std::to_string(D);
  extra["rational_values"] = std::to_string(Rval.size());
  extra["rational_ctor_inputs"] = std::to_string(Rraw.size());
  extra["inf_rational_values"] = std::to_string(Eval.size());
  extra["lin_values"] = std::to_string(Lval.size());
  extra["wall_ms"] = std::to_string(vf::now_ms() - t0);
  // a few written-out cases
  vf::st().sink.samples.push_back("rational+rational " + Rval[3].txt + " " + Rval[Rval.size() / 2].txt);
  vf::st().sink.samples.push_back("inf_rational<=rational " + Eval[5].txt + " " + Rval[7].txt);
  vf::st().sink.samples.push_back("lin+lin " + Lval[17].txt + " " + Lval[200].txt);
  vf::write_result(args.get("out", "/dev/stdout"), rr.exhaustive, extra);
  return 0;
}
