// E2/C13: reified boolean constructs of smt::sat_core against truth tables.
//
// A case is a short root-level history:  unit clauses (root pre-assignments), then one or two
// constructor calls (new_eq / new_conj / new_disj / new_at_most_one / new_exct_one) with argument
// lists over the 2n literals, optionally a unit clause between them.  After every step every
// construct built so far is re-judged against the clause database as it stands.
#include "arena.h"
#include "driver.h"
#include "netread.h"
#include <sstream>

using namespace smt;
using tt::TT;

struct Step
{
  char kind; // 'u' unit, 'e' eq, 'c' conj, 'd' disj, 'a' amo, 'x' exo
  std::vector<int> args; // signed var indices
};
struct Case
{
  int n = 3;
  bool prop = false;
  std::vector<Step> steps;
};

static const char *opname(char k)
{
  switch (k)
  {
  case 'e':
    return "new_eq";
  case 'c':
    return "new_conj";
  case 'd':
    return "new_disj";
  case 'a':
    return "new_at_most_one";
  case 'x':
    return "new_exct_one";
  default:
    return "unit";
  }
}
static std::string step_txt(const Step &s)
{
  std::string t;
  if (s.kind == 'u')
    return std::string("u") + (s.args[0] > 0 ? "+" : "-") + std::to_string(std::abs(s.args[0]));
  t = s.kind == 'e' ? "eq(" : s.kind == 'c' ? "conj("
                          : s.kind == 'd'   ? "disj("
                          : s.kind == 'a'   ? "amo("
                                            : "exo(";
  for (size_t i = 0; i < s.args.size(); ++i)
    t += std::string(i ? "," : "") + (s.args[i] > 0 ? "+" : "-") + std::to_string(std::abs(s.args[i]));
  return t + ")";
}
static std::string case_txt(const Case &c)
{
  std::string t = "n=" + std::to_string(c.n) + (c.prop ? " p" : "");
  for (auto &s : c.steps)
    t += " " + step_txt(s);
  return t;
}
static Case parse_case(const std::string &txt)
{
  Case c;
  std::istringstream is(txt);
  std::string tok;
  while (is >> tok)
  {
    if (tok.rfind("n=", 0) == 0)
      c.n = std::atoi(tok.c_str() + 2);
    else if (tok == "p")
      c.prop = true;
    else
    {
      Step s;
      size_t p = 0;
      if (tok[0] == 'u')
      {
        s.kind = 'u';
        p = 1;
      }
      else
      {
        s.kind = tok.rfind("eq", 0) == 0 ? 'e' : tok.rfind("conj", 0) == 0 ? 'c'
                                             : tok.rfind("disj", 0) == 0   ? 'd'
                                             : tok.rfind("amo", 0) == 0    ? 'a'
                                                                           : 'x';
        p = tok.find('(') + 1;
      }
      while (p < tok.size() && tok[p] != ')')
      {
        size_t q = p;
        while (q < tok.size() && tok[q] != ',' && tok[q] != ')')
          ++q;
        if (q > p)
          s.args.push_back(std::atoi(tok.substr(p, q - p).c_str()));
        p = q + 1;
      }
      c.steps.push_back(s);
    }
  }
  return c;
}

struct Built
{
  Step st;
  lit c;
  size_t nvars_before;
  nr::Cnf before;          // database before the call
  std::vector<lit> later_units; // units the user added after the call
  std::string shape;
  bool ok_at_creation = true;
};

static lit mk(int a) { return lit(std::abs(a), a > 0); }

// cardinality readings: positions (multiset) / distinct literals
static TT atmost1(int k, const std::vector<lit> &ls)
{
  TT r(k, true);
  for (size_t i = 0; i < ls.size(); ++i)
    for (size_t j = i + 1; j < ls.size(); ++j)
      r &= ~(nr::col(k, ls[i]) & nr::col(k, ls[j]));
  return r;
}
static TT atleast1(int k, const std::vector<lit> &ls)
{
  TT r(k, false);
  for (auto &l : ls)
    r |= nr::col(k, l);
  return r;
}
static std::vector<lit> dedup(std::vector<lit> ls)
{
  std::vector<lit> r;
  for (auto &l : ls)
    if (std::find(r.begin(), r.end(), l) == r.end())
      r.push_back(l);
  return r;
}

// judges construct b against the current database; returns "" or a failure tag + witness.
// User variables are 1..n; everything above is auxiliary (Tseitin variables, earlier results) and
// is quantified existentially: "excludes no assignment that satisfies it" speaks of assignments
// to the user's variables.
static TT exists_aux(TT t, int n, int k)
{
  for (int v = n + 1; v < k; ++v)
    t = t.exists(v);
  return t;
}
static TT base_of(const Built &b, int k)
{
  nr::Cnf base_cnf = b.before;
  for (auto &u : b.later_units)
    base_cnf.push_back({u});
  return nr::cnf_tt(k, base_cnf);
}
static std::string wit_of(const TT &t, int k)
{
  long i = t.first();
  return i < 0 ? "" : nr::assignment_str(i, k);
}
static std::string judge(const sat_core &sat, const Built &b, int n, std::string &witness)
{
  int k = (int)sat.assigns.size();
  TT F = nr::cnf_tt(k, nr::read_cnf(sat));
  std::vector<lit> args;
  for (int a : b.st.args)
    args.push_back(mk(a));
  TT c = nr::col(k, b.c);
  if (b.st.kind == 'e' || b.st.kind == 'c' || b.st.kind == 'd')
  {
    TT phi(k, b.st.kind == 'c');
    if (b.st.kind == 'e')
      phi = ~(nr::col(k, args[0]) ^ nr::col(k, args[1]));
    else
      for (auto &l : args)
        phi = b.st.kind == 'c' ? (phi & nr::col(k, l)) : (phi | nr::col(k, l));
    TT bad = F & (c ^ phi);
    if (!bad.none())
    {
      witness = wit_of(bad, k);
      return "not-equivalent";
    }
    return "";
  }
  // amo / exo: accepted if right under the positional or under the distinct-literal reading
  TT base = exists_aux(base_of(b, k), n, k);
  TT Fc = exists_aux(F & c, n, k);
  std::string fail;
  for (int reading = 0; reading < 2; ++reading)
  {
    std::vector<lit> ls = reading == 0 ? args : dedup(args);
    TT card = atmost1(k, ls);
    if (b.st.kind == 'x')
      card &= atleast1(k, ls);
    TT bad = F & c & ~card;
    if (!bad.none())
    {
      witness = wit_of(bad, k);
      fail = "true-but-cardinality-violated";
      continue;
    }
    TT excl = base & card & ~Fc;
    if (!excl.none())
    {
      witness = wit_of(excl, k);
      fail = "excludes-satisfying-assignment";
      continue;
    }
    return "";
  }
  return fail;
}
// conservativity of one constructor call: every assignment of the user's variables that was
// possible before the call is still possible after it
static std::string judge_step(const sat_core &sat, const Built &b, int n, std::string &witness)
{
  int k = (int)sat.assigns.size();
  TT F = exists_aux(nr::cnf_tt(k, nr::read_cnf(sat)), n, k);
  TT base = exists_aux(nr::cnf_tt(k, b.before), n, k);
  TT lost = base & ~F;
  if (lost.none())
    return "";
  witness = wit_of(lost, k);
  return "not-conservative";
}

static std::string shape_of(const sat_core &sat, const Step &s)
{
  bool t = false, f = false, compl_ = false, dup = false;
  for (size_t i = 0; i < s.args.size(); ++i)
  {
    lbool v = sat.value(mk(s.args[i]));
    t |= v == True;
    f |= v == False;
    for (size_t j = i + 1; j < s.args.size(); ++j)
    {
      compl_ |= s.args[i] == -s.args[j];
      dup |= s.args[i] == s.args[j];
    }
  }
  return t ? "root-true-arg" : f ? "root-false-arg"
                           : compl_ ? "complementary-args"
                           : dup    ? "duplicate-args"
                                    : "plain";
}

static uint64_t g_tables = 0;

struct Failure
{
  std::string op, shape, fail, later, msg;
  bool fresh;
  size_t ctor_index = 0; // which constructor call of the case failed
};
// runs one case and returns what failed
static std::vector<Failure> exec_case(const Case &cs, uint64_t *fingerprint)
{
  std::vector<Failure> out;
  vf::Arena::Scope arena;
  sat_core sat;
  for (int i = 0; i < cs.n; ++i)
    sat.new_var();
  std::vector<Built> built;
  for (size_t si = 0; si < cs.steps.size(); ++si)
  {
    const Step &s = cs.steps[si];
    if (s.kind == 'u')
    {
      if (!sat.new_clause({mk(s.args[0])}))
        break; // the user made the network inconsistent: nothing left to judge
      if (cs.prop && !sat.propagate())
        break;
      for (auto &b : built)
        b.later_units.push_back(mk(s.args[0]));
    }
    else
    {
      Built b;
      b.st = s;
      b.nvars_before = sat.assigns.size();
      b.before = nr::read_cnf(sat);
      b.shape = shape_of(sat, s);
      std::vector<lit> ls;
      for (int a : s.args)
        ls.push_back(mk(a));
      switch (s.kind)
      {
      case 'e':
        b.c = sat.new_eq(ls[0], ls[1]);
        break;
      case 'c':
        b.c = sat.new_conj(ls);
        break;
      case 'd':
        b.c = sat.new_disj(ls);
        break;
      case 'a':
        b.c = sat.new_at_most_one(ls);
        break;
      default:
        b.c = sat.new_exct_one(ls);
        break;
      }
      built.push_back(b);
      std::string w;
      ++g_tables;
      std::string fail = judge_step(sat, built.back(), cs.n, w);
      if (!fail.empty())
      {
        vf::Arena::Pause p;
        out.push_back(Failure{opname(s.kind), b.shape, fail, "", std::string(opname(s.kind)) + step_txt(s).substr(step_txt(s).find('(')) + " returned " + nr::ls(b.c) + "; the call lost the assignment " + w + " of the user variables", true, built.size() - 1});
        break; // the database is no longer what the user stated
      }
    }
    // judge every construct built so far
    for (size_t bi = 0; bi < built.size(); ++bi)
    {
      Built &b = built[bi];
      if (!b.ok_at_creation)
        continue;
      std::string w;
      ++g_tables;
      std::string fail = judge(sat, b, cs.n, w);
      if (fail.empty())
        continue;
      bool fresh = (bi + 1 == built.size()) && s.kind != 'u';
      b.ok_at_creation = false;
      vf::Arena::Pause p;
      out.push_back(Failure{opname(b.st.kind), b.shape, fail, fresh ? "" : opname(s.kind), std::string(opname(b.st.kind)) + step_txt(b.st).substr(step_txt(b.st).find('(')) + " returned " + nr::ls(b.c) + "; " + fail + "; witness assignment: " + w + "; database: " + std::to_string(sat.constrs.size()) + " clauses", fresh, bi});
    }
  }
  if (fingerprint)
  {
    uint64_t h = 1469598103934665603ull;
    vf::Arena::Pause p;
    for (auto &b : built)
      h = vf::fnv(nr::ls(b.c), h);
    h = vf::fnv(std::to_string(sat.constrs.size()) + "/" + std::to_string(sat.assigns.size()), h);
    *fingerprint = h;
  }
  return out;
}

static void run_case(const Case &cs, const std::string &txt)
{
  uint64_t fp = 0;
  std::vector<Failure> fails = exec_case(cs, &fp);
  vf::distinct("outcomes", fp);
  for (auto &f : fails)
  {
    std::string key = f.op + ":" + f.shape + ":" + f.fail;
    if (!f.fresh)
      key = f.op + ":broken-by-later-" + f.later + ":" + f.fail;
    else
    { // does the failure need the earlier construct?  re-run with the last constructor call alone
      size_t nctor = 0;
      for (auto &s : cs.steps)
        nctor += s.kind != 'u';
      if (nctor > 1 && f.ctor_index > 0)
      {
        Case red;
        red.n = cs.n;
        red.prop = cs.prop;
        size_t seen = 0, last = 0;
        for (size_t i = 0; i < cs.steps.size(); ++i)
          if (cs.steps[i].kind != 'u')
            last = i;
        for (size_t i = 0; i < cs.steps.size(); ++i)
          if (cs.steps[i].kind == 'u' || i == last)
            red.steps.push_back(cs.steps[i]);
        (void)seen;
        bool alone = false;
        for (auto &g : exec_case(red, nullptr))
          alone |= (g.fresh && g.fail == f.fail && g.op == f.op);
        if (alone)
          continue; // the shorter single-call case reports it
        std::string prev;
        for (size_t i = 0; i < last; ++i)
          if (cs.steps[i].kind != 'u')
            prev = opname(cs.steps[i].kind);
        key += ":only-after-" + prev;
      }
    }
    vf::finding(key, txt, f.msg);
  }
}

// ---- enumeration ---------------------------------------------------------------------------------
static std::vector<std::vector<int>> all_lists(int n, int L)
{
  std::vector<std::vector<int>> out, cur = {{}};
  std::vector<int> lits;
  for (int v = 1; v <= n; ++v)
  {
    lits.push_back(v);
    lits.push_back(-v);
  }
  for (int len = 1; len <= L; ++len)
  {
    std::vector<std::vector<int>> nxt;
    for (auto &c : cur)
      for (int l : lits)
      {
        auto d = c;
        d.push_back(l);
        nxt.push_back(d);
      }
    for (auto &x : nxt)
      out.push_back(x);
    cur = nxt;
  }
  return out;
}
// lists related to l: permutations (reverse, rotate), sub-lists, one-literal extensions, sign flips
static std::vector<std::vector<int>> related(const std::vector<int> &l, int n)
{
  std::set<std::vector<int>> r;
  r.insert(l);
  auto rev = l;
  std::reverse(rev.begin(), rev.end());
  r.insert(rev);
  if (l.size() > 1)
  {
    auto rot = l;
    std::rotate(rot.begin(), rot.begin() + 1, rot.end());
    r.insert(rot);
    for (size_t i = 0; i < l.size(); ++i)
    {
      auto sub = l;
      sub.erase(sub.begin() + i);
      r.insert(sub);
    }
  }
  for (size_t i = 0; i < l.size(); ++i)
  {
    auto fl = l;
    fl[i] = -fl[i];
    r.insert(fl);
  }
  for (int v = 1; v <= n; ++v)
    for (int s = -1; s <= 1; s += 2)
    {
      auto e = l;
      e.push_back(s * v);
      r.insert(e);
    }
  return std::vector<std::vector<int>>(r.begin(), r.end());
}

struct UnitSpec
{
  int n;
  std::vector<int> pre; // 0 free, 1 true, -1 false per var
  bool prop;
  int mode; // 0 singles+pairs (n<=3), 1 singles only, 2 distinct-variable lists (product encoding), 3 large grids (identity and reverse order, all signs)
  int L;
  bool mid_units;
};
static std::vector<UnitSpec> Specs;
static const char OPS[] = {'e', 'c', 'd', 'a', 'x'};

static void run_unit(uint64_t ui)
{
  const UnitSpec &U = Specs[ui];
  Case base;
  base.n = U.n;
  base.prop = U.prop;
  for (int v = 1; v <= U.n; ++v)
    if (U.pre[v - 1])
      base.steps.push_back(Step{'u', {U.pre[v - 1] * v}});
  uint64_t cases = 0;
  auto go = [&](const Case &c)
  {
    std::string txt = case_txt(c);
    if (!vf::begin_case(txt))
      return;
    ++cases;
    run_case(c, txt);
    vf::end_case();
    if ((cases & 0xffff) == 1)
      vf::sample(txt);
  };
  if (U.mode == 3)
  { // grids of the product encoding with incomplete last rows/columns: L distinct variables in ascending and in
    // descending order, every sign pattern, at-most-one and exactly-one
    for (int rev = 0; rev < 2; ++rev)
      for (int signs = 0; signs < (1 << U.L); ++signs)
      {
        std::vector<int> l;
        for (int i = 0; i < U.L; ++i)
        {
          int v = rev ? U.L - i : i + 1;
          l.push_back(((signs >> i) & 1) ? -v : v);
        }
        for (char op : {'a', 'x'})
        {
          Case c = base;
          c.steps.push_back(Step{op, l});
          go(c);
        }
      }
    vf::count("histories", cases);
    vf::count("truth_tables", g_tables);
    g_tables = 0;
    return;
  }
  if (U.mode == 2)
  { // all orderings/signs of L distinct variables, every op
    std::vector<int> vars;
    for (int v = 1; v <= U.n; ++v)
      vars.push_back(v);
    std::sort(vars.begin(), vars.end());
    do
    {
      for (int signs = 0; signs < (1 << U.L); ++signs)
      {
        std::vector<int> l;
        for (int i = 0; i < U.L; ++i)
          l.push_back(((signs >> i) & 1) ? -vars[i] : vars[i]);
        for (char op : OPS)
        {
          if (op == 'e')
            continue;
          Case c = base;
          c.steps.push_back(Step{op, l});
          go(c);
          // followed by the other cardinality construct on the same list
          if (op == 'a' || op == 'x')
          {
            Case c2 = c;
            c2.steps.push_back(Step{op == 'a' ? 'x' : 'a', l});
            go(c2);
          }
        }
      }
    } while (std::next_permutation(vars.begin(), vars.end()));
    vf::count("histories", cases);
    return;
  }
  auto lists = all_lists(U.n, U.L);
  auto shortl = all_lists(U.n, 2);
  for (auto &l1 : lists)
    for (char op1 : OPS)
    {
      if ((op1 == 'e') != (l1.size() == 2 && op1 == 'e'))
        continue;
      Case c1 = base;
      c1.steps.push_back(Step{op1, l1});
      go(c1);
      if (U.mode == 1)
        continue;
      // second call: every op on every short list and on every list related to the first
      std::set<std::vector<int>> seconds(shortl.begin(), shortl.end());
      for (auto &r : related(l1, U.n))
        if (r.size() <= 4)
          seconds.insert(r);
      std::vector<std::vector<Step>> mids = {{}};
      if (U.mid_units)
        for (int a : l1)
        {
          mids.push_back({Step{'u', {a}}});
          mids.push_back({Step{'u', {-a}}});
        }
      for (auto &mid : mids)
        for (auto &l2 : seconds)
          for (char op2 : OPS)
          {
            if (op2 == 'e' && l2.size() != 2)
              continue;
            if (l2.empty())
              continue;
            Case c2 = c1;
            for (auto &m : mid)
              c2.steps.push_back(m);
            c2.steps.push_back(Step{op2, l2});
            go(c2);
          }
    }
  vf::count("histories", cases);
  vf::count("truth_tables", g_tables);
  g_tables = 0;
}

int main(int argc, char **argv)
{
  vf::Args args(argc, argv);
  std::string tier = args.get("tier", "quick");
  if (args.has("replay"))
  {
    std::string txt = args.get("replay");
    Case c = parse_case(txt);
    run_case(c, txt);
    for (auto &[k, f] : vf::st().sink.findings)
      std::printf("REPRODUCED key=%s\n  %s\n", k.c_str(), f.msg.c_str());
    return vf::st().sink.findings.empty() ? 0 : 1;
  }
  // units: (n, pre-assignment, propagate flag)
  auto add_specs = [&](int n, bool prop, int mode, int L, bool mid, int max_pre)
  {
    int total = 1;
    for (int i = 0; i < n; ++i)
      total *= 3;
    for (int code = 0; code < total; ++code)
    {
      UnitSpec u;
      u.n = n;
      u.prop = prop;
      u.mode = mode;
      u.L = L;
      u.mid_units = mid;
      int c = code, npre = 0;
      for (int i = 0; i < n; ++i)
      {
        int d = c % 3;
        c /= 3;
        u.pre.push_back(d == 0 ? 0 : d == 1 ? 1
                                            : -1);
        npre += d != 0;
      }
      if (npre <= max_pre)
        Specs.push_back(u);
    }
  };
  if (tier == "quick")
  {
    add_specs(2, false, 0, 3, true, 2);
    add_specs(3, false, 0, 2, false, 3);
    add_specs(3, true, 1, 3, false, 3);
    add_specs(3, false, 1, 3, false, 3);
    add_specs(4, false, 2, 4, false, 1);
    for (int L = 5; L <= 8; ++L)
      add_specs(L, false, 3, L, false, 0);
  }
  else
  {
    add_specs(2, false, 0, 4, true, 2);
    add_specs(2, true, 0, 4, true, 2);
    add_specs(3, false, 0, 3, true, 3);
    add_specs(3, true, 0, 3, false, 3);
    add_specs(4, false, 1, 4, false, 4);
    add_specs(4, true, 1, 3, false, 4);
    add_specs(4, false, 2, 4, false, 2);
    add_specs(5, false, 2, 5, false, 1);
    add_specs(6, false, 2, 6, false, 0);
    for (int L = 5; L <= 9; ++L)
      add_specs(L, L % 2 == 0, 3, L, false, 1);
    // 10 variables are out of reach of the truth-table oracle: the nested product encoding of the 4 row variables
    // brings the formula to 26 variables (2^26 rows, > 4 GB of arena); 9 (3x3 grid) needs 18
  }
  vf::Options opt;
  opt.jobs = (int)args.num("jobs", 16);
  opt.batch = 1;
  opt.case_limit_ms = 10000;
  opt.max_dead_cases = 50; // aborts piling up (a harness limit or a broken tree): stop handing out work, exhaustive:false
  long dl = args.num("deadline_s", 0);
  if (dl)
    opt.deadline_ms = vf::now_ms() + (uint64_t)dl * 1000;
  opt.crash_key = [](uint64_t, const std::string &text, const std::string &what)
  {
    Case c = parse_case(text);
    std::string last = c.steps.empty() ? "?" : opname(c.steps.back().kind);
    return last + std::string(what == "hang" ? ":hang" : ":abort");
  };
  uint64_t t0 = vf::now_ms();
  vf::RunResult rr = vf::run_units(Specs.size(), run_unit, opt);
  std::map<std::string, std::string> extra;
  extra["units"] = std::to_string(Specs.size());
  extra["units_done"] = std::to_string(rr.units_done);
  extra["wall_ms"] = std::to_string(vf::now_ms() - t0);
  vf::write_result(args.get("out", "/dev/stdout"), rr.exhaustive, extra);
  return 0;
}
