// E5 schedmc (C20): stateless, preemption-bounded exploration of the schedules of smt::thread_pool
// workers during LRA pivots, on the real code (libsmt built with PARALLELIZE) under the cooperative
// scheduler of engine/vsched.h.
//
//   schedmc --expect FILE [--tier quick|thorough] [--replay "<scenario> <pool> <choices>"]
// FILE holds the canonical end states of the same scenarios on the SEQUENTIAL build (harness/seqref).
#include "arena.h"
#include "vsched.h"
#include "driver.h"
#include "pivot_scen.h"
#include <fstream>

static std::map<int, std::string> g_expect;

struct ExecOut
{
  std::vector<sch::Point> points;
  std::string state;
  std::string problem; // "" or what went wrong inside the execution
};

static ExecOut execute(int scenario, unsigned pool, const std::vector<int> &prefix)
{
  ExecOut o;
  sch::pool_size = pool;
  sch::begin(prefix);
  {
    // deterministic addresses: the order in which pivot() enqueues the row updates is the iteration order of an
    // unordered_set<row*>; only one managed thread runs at a time, so the bump allocator needs no lock
    vf::Arena::Scope arena;
    sch::arena_user = 1;
    {
    smt::sat_core sat;
    std::string st = scen::run(scenario, sat, [&](smt::lra_theory &)
                        {
                          // when a call that may pivot has returned, the pool must be quiescent
                          smt::thread_pool &tp = sat.get_thread_pool();
                          if (!tp.tasks.empty() || tp.active != 0)
                          {
                            vf::Arena::Pause p;
                            o.problem = "pool not quiescent after the call returned: " + std::to_string(tp.tasks.size()) + " queued task(s), " + std::to_string(tp.active) + " active";
                          } });
    {
      vf::Arena::Pause p;
      o.state = std::string(st.c_str());
    }
    } // the pool is destroyed here: its workers are joined under the scheduler too
    sch::arena_user = 0;
  }
  sch::end();
  o.points = sch::points;
  return o;
}

static std::string choices_txt(const std::vector<int> &c)
{
  std::string s;
  for (size_t i = 0; i < c.size(); ++i)
    s += (i ? "," : "") + std::to_string(c[i]);
  return s.empty() ? "-" : s;
}

static int g_scenario = 0, g_bound = 2;
static unsigned g_pool = 2;
static uint64_t g_execs = 0, g_points_total = 0;
static const uint64_t UNITS = 128;

static std::string case_txt(const std::vector<int> &prefix) { return "scen=" + std::to_string(g_scenario) + " pool=" + std::to_string(g_pool) + " choices=" + choices_txt(prefix); }

static ExecOut run_and_judge(const std::vector<int> &prefix, bool judge)
{
  std::string txt = case_txt(prefix);
  bool j = judge && vf::begin_case(txt);
  if (judge && !j && vf::is_dead_case())
  {
    ExecOut o;
    o.problem = "dead";
    return o;
  }
  if (!j)
    vf::note("(silent) " + txt);
  ExecOut o = execute(g_scenario, g_pool, prefix);
  if (j)
  {
    ++g_execs;
    g_points_total += sch::n_sched_points;
    if (!o.problem.empty())
      vf::finding("C20:pool-not-quiescent:scenario" + std::to_string(g_scenario), txt, o.problem);
    else if (o.state != g_expect[g_scenario])
    {
      // which part differs?
      auto part = [](const std::string &s, const char *k)
      {
        size_t p = s.find(k);
        size_t q = s.find(' ', p);
        return p == std::string::npos ? std::string() : s.substr(p, q - p);
      };
      std::string what = "state";
      for (const char *k : {"verdicts:", "tableau:", "watches:", "vals:", "assigns:", "clauses:"})
        if (part(o.state, k) != part(g_expect[g_scenario], k))
        {
          what = std::string(k).substr(0, std::strlen(k) - 1);
          break;
        }
      vf::finding("C20:differs-from-sequential:" + what + ":scenario" + std::to_string(g_scenario), txt, "parallel: " + o.state + "\nsequential: " + g_expect[g_scenario]);
    }
    vf::end_case();
    vf::distinct("outcomes", vf::fnv(o.state));
    if ((g_execs & 0x3ff) == 1)
      vf::sample(txt);
  }
  sch::n_sched_points = 0;
  return o;
}

static void explore(const std::vector<int> &prefix, int depth_unit, uint64_t unit)
{
  // depth_unit: 0 = root (handled specially for work splitting), >0 = inside a unit's subtree
  ExecOut o = run_and_judge(prefix, depth_unit > 0 || unit == 0);
  if (o.problem == "dead")
    return;
  std::vector<int> choices;
  for (auto &p : o.points)
    choices.push_back(p.chosen);
  int cost = 0;
  for (size_t i = 0; i < prefix.size() && i < o.points.size(); ++i)
    if (o.points[i].cur_enabled && o.points[i].chosen != 0)
      ++cost;
  uint64_t alt_index = 0;
  for (size_t i = prefix.size(); i < o.points.size(); ++i)
  {
    const sch::Point &p = o.points[i];
    int c = cost + (p.cur_enabled ? 1 : 0);
    if (c <= g_bound)
      for (int alt = 1; alt < p.n_enabled; ++alt)
      {
        if (depth_unit == 0 && (alt_index++ % UNITS) != unit)
          continue;
        std::vector<int> np(choices.begin(), choices.begin() + i);
        np.push_back(alt);
        explore(np, depth_unit + 1, unit);
      }
    // default choice at point i costs nothing
  }
}

static void run_unit(uint64_t u)
{
  g_execs = 0;
  g_points_total = 0;
  explore({}, 0, u);
  vf::count("schedules", g_execs);
  vf::count("scheduling_points", g_points_total);
}

int main(int argc, char **argv)
{
  vf::Args args(argc, argv);
  std::string tier = args.get("tier", "quick");
  {
    std::ifstream f(args.get("expect"));
    std::string line;
    while (std::getline(f, line))
    {
      size_t t = line.find('\t');
      if (t != std::string::npos)
        g_expect[std::atoi(line.substr(0, t).c_str())] = line.substr(t + 1);
    }
  }
  if ((int)g_expect.size() < scen::N_SCEN)
  {
    std::fprintf(stderr, "schedmc: missing sequential reference (--expect)\n");
    return 2;
  }
  if (args.has("replay"))
  {
    std::string c = args.get("replay");
    int sc = 0;
    unsigned pool = 2;
    std::vector<int> choices;
    {
      size_t p = c.find("scen=");
      sc = std::atoi(c.c_str() + p + 5);
      p = c.find("pool=");
      pool = (unsigned)std::atoi(c.c_str() + p + 5);
      p = c.find("choices=");
      std::string cs = c.substr(p + 8);
      if (cs != "-")
      {
        size_t q = 0;
        while (q < cs.size())
        {
          size_t e = cs.find(',', q);
          if (e == std::string::npos)
            e = cs.size();
          choices.push_back(std::atoi(cs.substr(q, e - q).c_str()));
          q = e + 1;
        }
      }
    }
    g_scenario = sc;
    g_pool = pool;
    // replay twice: identical observations are required before a failure is trusted
    ExecOut a = execute(sc, pool, choices);
    ExecOut b = execute(sc, pool, choices);
    if (a.state != b.state || a.points.size() != b.points.size())
    {
      std::printf("replay: the same schedule produced two different observations - harness error\n");
      return 2;
    }
    std::printf("parallel:   %s\nsequential: %s\n", a.state.c_str(), g_expect[sc].c_str());
    if (!a.problem.empty())
      std::printf("REPRODUCED %s\n", a.problem.c_str());
    return (!a.problem.empty() || a.state != g_expect[sc]) ? 1 : 0;
  }
  bool th = tier == "thorough";
  struct Cfg
  {
    int scenario;
    unsigned pool;
    int bound;
  };
  std::vector<Cfg> cfgs;
  // (scenario, pool, preemption bound); switches forced by blocking are free, so even bound 0 branches at
  // every point where the running thread blocks and several others are enabled
  if (!th)
    cfgs = {{0, 1, 2}, {0, 2, 2}, {0, 3, 1}, {1, 1, 2}, {1, 2, 1}, {1, 3, 0}, {2, 1, 2}, {2, 2, 1}, {2, 3, 0}, {3, 1, 2}, {3, 2, 1}, {3, 3, 0},
            {4, 1, 2}, {4, 2, 0}, {5, 1, 2}, {5, 2, 2}, {5, 3, 1}, {6, 1, 2}, {6, 2, 1}, {6, 3, 0}};
  else
    cfgs = {{0, 1, 3}, {0, 2, 3}, {0, 3, 1}, {5, 1, 3}, {5, 2, 3}, {5, 3, 2}, {6, 1, 3}, {6, 2, 2}, {6, 3, 1}, {2, 1, 3}, {2, 2, 1}, {2, 3, 0}, {3, 1, 3}, {3, 2, 2}, {3, 3, 0},
            {1, 1, 3}, {1, 2, 2}, {4, 1, 3}, {4, 2, 1}, {4, 3, 0}, {1, 3, 1}, {0, 3, 2}, {2, 2, 2}, {3, 3, 1}};
  vf::Options opt;
  opt.jobs = (int)args.num("jobs", 16);
  opt.batch = 2;
  opt.case_limit_ms = 20000;
  opt.max_dead_cases = 50;
  long dl = args.num("deadline_s", 0);
  uint64_t deadline = dl ? vf::now_ms() + (uint64_t)dl * 1000 : 0;
  opt.crash_key = [](uint64_t, const std::string &text, const std::string &what)
  {
    std::string sc = text.substr(0, text.find(' '));
    if (what.find("exit status 77") != std::string::npos)
      return "C20:deadlock:" + sc;
    if (what.find("exit status 78") != std::string::npos)
      return std::string("HARNESS:replay-divergence");
    return "C20:" + std::string(what == "hang" ? "hang" : "abort") + ":" + sc;
  };
  uint64_t t0 = vf::now_ms();
  bool exhaustive = true;
  std::string levels = "[";
  for (auto &c : cfgs)
  {
    if (deadline && vf::now_ms() > deadline)
    {
      exhaustive = false;
      break;
    }
    g_scenario = c.scenario;
    g_pool = c.pool;
    g_bound = c.bound;
    opt.deadline_ms = deadline;
    uint64_t before = vf::st().sink.counters["schedules"];
    vf::RunResult rr = vf::run_units(UNITS, run_unit, opt);
    exhaustive = exhaustive && rr.exhaustive;
    levels += std::string(levels.size() > 1 ? "," : "") + "{\"scenario\":" + std::to_string(c.scenario) + ",\"pool\":" + std::to_string(c.pool) + ",\"preemption_bound\":" + std::to_string(c.bound) + ",\"schedules\":" + std::to_string(vf::st().sink.counters["schedules"] - before) + ",\"complete\":" + (rr.exhaustive ? "true" : "false") + "}";
  }
  levels += "]";
  std::map<std::string, std::string> extra;
  extra["wall_ms"] = std::to_string(vf::now_ms() - t0);
  extra["levels"] = levels;
  vf::write_result(args.get("out", "/dev/stdout"), exhaustive, extra);
  return 0;
}
