// E3 progrun: runs RIDDLE programs through the real solver (read + solve) in forked children and
// dumps, per program, the verdict, the official to_json() documents (after read and after solve),
// the extracted timelines and the causal information of every atom (read with -fno-access-control).
//
//   progrun --in FILE --out FILE [--limit_ms N] [--jobs J]
// Input: programs separated by lines "#### <id>".  Output: one JSON object per line.
#include "solver.h"
#include "atom.h"
#include "atom_flaw.h"
#include "predicate.h"
#include "graph.h"
#include <chrono>
#include <csignal>
#include <cstring>
#include <fcntl.h>
#include <fstream>
#include <iostream>
#include <set>
#include <sstream>
#include <sys/mman.h>
#include <sys/resource.h>
#include <sys/wait.h>
#include <unistd.h>

using namespace ratio;
using namespace smt;

static std::string jstr(const std::string &s)
{
  std::string o = "\"";
  char buf[8];
  for (unsigned char c : s)
    if (c == '"')
      o += "\\\"";
    else if (c == '\\')
      o += "\\\\";
    else if (c == '\n')
      o += "\\n";
    else if (c == '\t')
      o += "\\t";
    else if (c < 0x20 || c >= 0x7f)
    {
      std::snprintf(buf, sizeof buf, "\\u%04x", c);
      o += buf;
    }
    else
      o += (char)c;
  return o + "\"";
}
static const char *lb(lbool v) { return v == True ? "T" : v == False ? "F"
                                                                      : "U"; }
// a flaw that was never initialised (its cause was already false) has no phi: it is not in the plan
static const char *lv(solver &s, const lit &l) { return is_undefined(l) ? "F" : lb(s.get_sat_core().value(l)); }

// the atoms a flaw ultimately stems from: the effects of its active causes, followed through flaws that are not atoms
// (a disjunction inside a rule, a variable choice) up to the nearest atom flaws
static void ancestor_atoms(solver &s, const flaw &f, std::set<long> &out, int depth = 0)
{
  if (depth > 64)
    return;
  for (auto *c : f.get_causes())
  {
    if (std::string(lv(s, c->get_rho())) != "T")
      continue;
    if (auto *paf = dynamic_cast<atom_flaw *>(&c->get_effect()))
      out.insert((long)paf->get_atom().get_id());
    else
      ancestor_atoms(s, c->get_effect(), out, depth + 1);
  }
}

static std::string dump_atoms(solver &s)
{
  std::string o = "[";
  bool first = true;
  for (auto &[atm, af] : s.reason)
  {
    o += first ? "" : ",";
    first = false;
    o += "{\"id\":" + std::to_string(atm->get_id()) + ",\"pred\":" + jstr(atm->get_type().get_full_name()) + ",\"sigma\":\"" + lb(s.get_sat_core().value(atm->get_sigma())) + "\",\"is_fact\":" + (af->is_fact ? "true" : "false");
    o += std::string(",\"phi\":\"") + lv(s, af->get_phi()) + "\",\"expanded\":" + (af->is_expanded() ? "true" : "false");
    o += ",\"resolvers\":[";
    bool f2 = true;
    for (auto *r : af->get_resolvers())
    {
      o += f2 ? "" : ",";
      f2 = false;
      std::string kind = "activate";
      std::string target = "0";
      if (is_unification(*r))
      {
        kind = "unify";
        // "target" is printed by get_data(); extract the number
        std::string d = r->get_data();
        size_t p = d.find("\"target\":\"");
        if (p != std::string::npos)
          target = d.substr(p + 10, d.find('"', p + 10) - p - 10);
      }
      o += "{\"kind\":\"" + kind + "\",\"rho\":\"" + lv(s, r->get_rho()) + "\",\"target\":" + target + ",\"preconditions\":[";
      bool f3 = true;
      for (auto *pf : r->get_preconditions())
      {
        o += f3 ? "" : ",";
        f3 = false;
        long aid = 0;
        if (auto *paf = dynamic_cast<atom_flaw *>(pf))
          aid = (long)paf->get_atom().get_id();
        // a flaw can have several causes (e.g. a timeline inconsistency between two atoms): it belongs to the plan only
        // when all of them are active
        bool all_causes = true;
        for (auto *c : pf->get_causes())
          all_causes = all_causes && std::string(lv(s, c->get_rho())) == "T";
        o += "{\"atom\":" + std::to_string(aid) + ",\"phi\":\"" + lv(s, pf->get_phi()) + "\",\"all_causes_active\":" + (all_causes ? "true" : "false") + "}";
      }
      o += "]}";
    }
    o += "],\"causes\":[";
    f2 = true;
    for (auto *c : af->get_causes())
    {
      o += f2 ? "" : ",";
      f2 = false;
      long aid = 0;
      if (auto *paf = dynamic_cast<atom_flaw *>(&c->get_effect()))
        aid = (long)paf->get_atom().get_id();
      o += "{\"rho\":\"" + std::string(lv(s, c->get_rho())) + "\",\"effect_atom\":" + std::to_string(aid) + ",\"unify\":" + (is_unification(*c) ? "true" : "false") + "}";
    }
    o += "],\"ancestor_atoms\":[";
    {
      std::set<long> anc;
      ancestor_atoms(s, *af, anc);
      bool f4 = true;
      for (long x : anc)
      {
        o += (f4 ? "" : ",") + std::to_string(x);
        f4 = false;
      }
    }
    o += "]}";
  }
  return o + "]";
}

static void run_program(const std::string &id, const std::string &text, int out_fd, bool want_after_read)
{
  std::ostringstream os;
  os << "{\"id\":" << jstr(id);
  std::string verdict, what;
  try
  {
    solver s;
    bool read_ok = false;
    try
    {
      s.read(text);
      read_ok = true;
    }
    catch (const unsolvable_exception &)
    {
      verdict = "inconsistent";
    }
    catch (const inconsistency_exception &)
    {
      verdict = "inconsistent";
    }
    catch (const std::exception &e)
    {
      verdict = "reader-error";
      what = e.what();
    }
    if (read_ok)
    {
      if (want_after_read)
      {
        os << ",\"after_read\":";
        s.to_json().to_json(os);
      }
      bool ok = s.solve();
      verdict = ok ? "solved" : "unsolvable";
      if (ok)
      {
        os << ",\"solution\":";
        s.to_json().to_json(os);
        os << ",\"timelines\":";
        s.extract_timelines().to_json(os);
        os << ",\"atoms\":" << dump_atoms(s);
        os << ",\"decision_level\":" << s.decision_level();
      }
    }
  }
  catch (const std::exception &e)
  {
    verdict = "exception";
    what = e.what();
  }
  catch (...)
  {
    verdict = "exception";
    what = "non-standard exception";
  }
  os << ",\"verdict\":" << jstr(verdict) << ",\"what\":" << jstr(what) << "}\n";
  std::string o = os.str();
  size_t off = 0;
  while (off < o.size())
  {
    ssize_t w = write(out_fd, o.data() + off, o.size() - off);
    if (w <= 0)
      break;
    off += (size_t)w;
  }
}

static uint64_t now_ms() { return std::chrono::duration_cast<std::chrono::milliseconds>(std::chrono::steady_clock::now().time_since_epoch()).count(); }

int main(int argc, char **argv)
{
  std::string in, out;
  long limit_ms = 20000;
  int jobs = 1;
  bool after_read = false;
  for (int i = 1; i < argc; ++i)
  {
    std::string a = argv[i];
    if (a == "--in")
      in = argv[++i];
    else if (a == "--out")
      out = argv[++i];
    else if (a == "--limit_ms")
      limit_ms = std::atol(argv[++i]);
    else if (a == "--jobs")
      jobs = std::atoi(argv[++i]);
    else if (a == "--after_read")
      after_read = true;
  }
  std::ifstream f(in);
  std::vector<std::pair<std::string, std::string>> progs;
  std::string line, cur_id, cur;
  while (std::getline(f, line))
  {
    if (line.rfind("#### ", 0) == 0)
    {
      if (!cur_id.empty())
        progs.push_back({cur_id, cur});
      cur_id = line.substr(5);
      cur.clear();
    }
    else
      cur += line + "\n";
  }
  if (!cur_id.empty())
    progs.push_back({cur_id, cur});
  int ofd = open(out.c_str(), O_WRONLY | O_CREAT | O_TRUNC, 0644);
  if (ofd < 0)
  {
    perror(out.c_str());
    return 2;
  }
  struct Run
  {
    pid_t pid;
    size_t idx;
    uint64_t t0;
    int out_fd, err_fd;
  };
  std::vector<Run> running;
  size_t next = 0;
  auto finish = [&](Run &r, const std::string &abnormal)
  {
    lseek(r.out_fd, 0, SEEK_SET);
    std::string o;
    char buf[65536];
    ssize_t n;
    while ((n = read(r.out_fd, buf, sizeof buf)) > 0)
      o.append(buf, (size_t)n);
    if (abnormal.empty() && !o.empty() && o.back() == '\n')
    {
      if (write(ofd, o.data(), o.size()) < 0)
        perror("write");
    }
    else
    {
      lseek(r.err_fd, 0, SEEK_SET);
      std::string e;
      while ((n = read(r.err_fd, buf, sizeof buf)) > 0 && e.size() < 4000)
        e.append(buf, (size_t)n);
      std::string j = "{\"id\":" + jstr(progs[r.idx].first) + ",\"verdict\":" + jstr(abnormal.empty() ? "abort" : abnormal.substr(0, abnormal.find(':'))) + ",\"what\":" + jstr((abnormal.empty() ? "no output" : abnormal) + " | " + e.substr(0, 3000)) + "}\n";
      if (write(ofd, j.data(), j.size()) < 0)
        perror("write");
    }
    close(r.out_fd);
    close(r.err_fd);
  };
  while (next < progs.size() || !running.empty())
  {
    while ((int)running.size() < jobs && next < progs.size())
    {
      Run r;
      r.idx = next++;
      r.out_fd = memfd_create("pr-out", 0);
      r.err_fd = memfd_create("pr-err", 0);
      r.t0 = now_ms();
      pid_t pid = fork();
      if (pid == 0)
      {
        dup2(r.err_fd, 2);
        struct rlimit core = {0, 0};
        setrlimit(RLIMIT_CORE, &core);
        run_program(progs[r.idx].first, progs[r.idx].second, r.out_fd, after_read);
        _exit(0);
      }
      r.pid = pid;
      running.push_back(r);
    }
    bool progressed = false;
    for (size_t i = 0; i < running.size();)
    {
      Run &r = running[i];
      int st = 0;
      pid_t w = waitpid(r.pid, &st, WNOHANG);
      std::string abnormal;
      bool done = false;
      if (w == r.pid)
      {
        done = true;
        if (WIFSIGNALED(st))
          abnormal = std::string("abort: signal ") + std::to_string(WTERMSIG(st)) + " (" + strsignal(WTERMSIG(st)) + ")";
        else if (WEXITSTATUS(st) != 0)
          abnormal = "abort: exit status " + std::to_string(WEXITSTATUS(st));
      }
      else if (now_ms() > r.t0 + (uint64_t)limit_ms)
      {
        kill(r.pid, SIGKILL);
        waitpid(r.pid, &st, 0);
        done = true;
        abnormal = "timeout: no answer within " + std::to_string(limit_ms) + " ms";
      }
      if (done)
      {
        finish(r, abnormal);
        running.erase(running.begin() + i);
        progressed = true;
      }
      else
        ++i;
    }
    if (!progressed)
      usleep(500);
  }
  close(ofd);
  return 0;
}
