// E2/C11 + C12: "a relation literal means exactly its relation".
//
// C11 (lra_theory): a case is  <prelude of root constraints> ; <one or two relation requests>.
// For every grid point g (values of x,y) that satisfies the prelude by direct evaluation, the case is
// replayed on a fresh network, x and y are pinned to g at root level (set_lb/set_ub with the TRUE
// literal) and each requested literal L must behave like its relation at g:
//    relation holds  -> L is not false, assume(L) survives,  assume(!L) does not
//    relation fails  -> L is not true,  assume(!L) survives, assume(L) does not
// (simplex is complete, so "survives" is exact).  Pinning itself must succeed: requesting a literal
// must not remove solutions.
//
// C12 (idl_theory / rdl_theory): same idea with time points pinned by unit distance constraints to
// the origin, plus the expression queries bounds(lin) / distance(lin,lin) / equates(lin,lin) compared
// with the variable-level distances of the same state.
#include "arena.h"
#include "driver.h"
#include "fm.h"
#include "netread.h"
#include "lra_theory.h"
#include "idl_theory.h"
#include "rdl_theory.h"
#include <sstream>

using namespace smt;
using ref::Q;
using ref::Qe;

static rational mk_rat(const Q &q) { return rational((I)q.n, (I)q.d); }

// ---- expressions over x,y --------------------------------------------------------------------------
struct Expr
{
  const char *name;
  Q cx, cy, k;                                      // reference: cx*x + cy*y + k
  std::function<lin(const lin &, const lin &)> mk; // how the lin is assembled (through lin's operators)
};
static std::vector<Expr> EX;
static void build_exprs()
{
  auto R = [](long n, long d = 1)
  { return rational(n, d); };
  EX = {
      {"0", 0, 0, 0, [=](const lin &, const lin &)
       { return lin(R(0)); }},
      {"1", 0, 0, 1, [=](const lin &, const lin &)
       { return lin(R(1)); }},
      {"x", 1, 0, 0, [=](const lin &x, const lin &)
       { return x; }},
      {"y", 0, 1, 0, [=](const lin &, const lin &y)
       { return y; }},
      {"x+y", 1, 1, 0, [=](const lin &x, const lin &y)
       { return x + y; }},
      {"x-y", 1, -1, 0, [=](const lin &x, const lin &y)
       { return x - y; }},
      {"x-x", 0, 0, 0, [=](const lin &x, const lin &)
       { return x - x; }},
      {"x+x", 2, 0, 0, [=](const lin &x, const lin &)
       { return x + x; }},
      {"2*x", 2, 0, 0, [=](const lin &x, const lin &)
       { return x * R(2); }},
      {"x/2", Q(1, 2), 0, 0, [=](const lin &x, const lin &)
       { return x / R(2); }},
      {"x+1", 1, 0, 1, [=](const lin &x, const lin &)
       { return x + R(1); }},
      {"x+y-y", 1, 0, 0, [=](const lin &x, const lin &y)
       { return x + y - y; }},
      {"-x", -1, 0, 0, [=](const lin &x, const lin &)
       { return -x; }},
      {"2*x-y", 2, -1, 0, [=](const lin &x, const lin &y)
       { return R(2) * x - y; }},
      {"y-1/2", 0, 1, Q(-1, 2), [=](const lin &, const lin &y)
       { return y - R(1, 2); }},
      {"1-x", -1, 0, 1, [=](const lin &x, const lin &)
       { return R(1) - x; }},
  };
}
// expressions over a slack variable s defined through the public lra_theory::new_var(x + y + 3): its tableau row
// has a constant term (rows created by relation requests never have one)
static lin g_s;
static std::vector<Expr> EXS;
static void build_slack_exprs()
{
  auto R = [](long n, long d = 1)
  { return rational(n, d); };
  EXS = {
      {"s", 1, 1, 3, [=](const lin &, const lin &)
       { return g_s; }},
      {"2*s", 2, 2, 6, [=](const lin &, const lin &)
       { return g_s * R(2); }},
      {"s-x", 0, 1, 3, [=](const lin &x, const lin &)
       { return g_s - x; }},
      {"s+1", 1, 1, 4, [=](const lin &, const lin &)
       { return g_s + R(1); }},
  };
}
static const Expr *expr_by_name(const std::string &n)
{
  for (auto &e : EX)
    if (n == e.name)
      return &e;
  for (auto &e : EXS)
    if (n == e.name)
      return &e;
  return nullptr;
}
static const char *RELN[] = {"lt", "le", "eq", "ge", "gt"};
static bool rel_holds(int rel, const Q &l, const Q &r)
{
  int c = ref::cmp(l, r);
  return rel == 0 ? c < 0 : rel == 1 ? c <= 0
                        : rel == 2   ? c == 0
                        : rel == 3   ? c >= 0
                                     : c > 0;
}
struct Req
{
  const Expr *l;
  int rel;
  const Expr *r;
};
static std::string req_txt(const Req &q) { return std::string(q.l->name) + " " + RELN[q.rel] + " " + q.r->name; }

// ---- preludes --------------------------------------------------------------------------------------
struct Prelude
{
  const char *name;
  std::vector<Req> cs; // root constraints, asserted in order (each followed by propagate)
  bool slack = false;  // s = new_var(x + y + 3) is created first
};
static std::vector<Prelude> PRE;
static void build_preludes()
{
  auto E = [](const char *n)
  { return expr_by_name(n); };
  PRE = {
      {"P0", {}},
      {"P1", {{E("x"), 3, E("1")}}},
      {"P2", {{E("x"), 1, E("1")}, {E("x"), 3, E("1")}}},
      {"P3", {{E("x+y"), 1, E("1")}}},
      {"P4", {{E("y"), 3, E("x")}}},
      {"P5", {{E("x+y"), 3, E("1")}}},                       // value 0 violates it: forces a pivot, x becomes basic
      {"P6", {{E("x+y"), 3, E("1")}, {E("x-y"), 1, E("0")}}}, // two pivots
      {"P7", {{E("x"), 4, E("0")}, {E("y"), 0, E("1")}}},     // strict root bounds
      {"PS0", {}, true},                                       // s is basic, its row has the constant 3
      {"PS1", {{E("s"), 1, E("1")}}, true},                    // value 3 violates it: a pivot makes x or y basic, with a constant in its row
  };
}
static const Prelude *pre_by_name(const std::string &n)
{
  for (auto &p : PRE)
    if (n == p.name)
      return &p;
  return nullptr;
}

static std::vector<Q> GRID = {Q(-1), Q(0), Q(1, 2), Q(1), Q(2)};

static Q eval(const Expr *e, const Q &x, const Q &y) { return e->cx * x + e->cy * y + e->k; }

static lit request(lra_theory &th, const Req &q, var x, var y)
{
  lin lx(x, rational::ONE), ly(y, rational::ONE);
  lin l = q.l->mk(lx, ly), r = q.r->mk(lx, ly);
  switch (q.rel)
  {
  case 0:
    return th.new_lt(l, r);
  case 1:
    return th.new_leq(l, r);
  case 2:
    return th.new_eq(l, r);
  case 3:
    return th.new_geq(l, r);
  default:
    return th.new_gt(l, r);
  }
}

// Is there a complete assignment of the network that makes l true?  CDCL-style search driven through
// the public API: decide the first undefined variable, let conflict analysis backjump and learn.
static bool possible(sat_core &sat, const lit &l, bool &dead)
{
  size_t lvl = sat.decision_level();
  bool result = false;
  for (int guard = 0; guard < 100000; ++guard)
  {
    // (re-)establish l: a learnt unit clause may have backjumped past it without refuting it
    if (sat.value(l) == False)
      break;
    if (sat.value(l) == Undefined)
    {
      if (!sat.assume(l))
      {
        dead = true;
        break;
      }
      continue;
    }
    var v = 0;
    for (size_t i = 1; i < sat.assigns.size(); ++i)
      if (sat.assigns[i] == Undefined)
      {
        v = i;
        break;
      }
    if (v == 0)
    {
      result = true; // complete assignment with l true, accepted by every theory
      break;
    }
    if (!sat.assume(lit(v)))
    {
      dead = true;
      break;
    }
  }
  while (sat.decision_level() > lvl)
    sat.pop();
  return result;
}

struct LraCase
{
  const Prelude *pre;
  std::vector<Req> reqs;
  int mid = -1; // index of a prelude (by position in PRE) asserted between the two requests, or -1
};
static std::string lra_case_txt(const LraCase &c)
{
  std::string t = std::string("lra ") + c.pre->name + " ;";
  for (size_t i = 0; i < c.reqs.size(); ++i)
  {
    if (i == 1 && c.mid >= 0)
      t += std::string(" then ") + PRE[c.mid].name + " ;";
    t += " " + req_txt(c.reqs[i]) + " ;";
  }
  return t;
}

static uint64_t g_replays = 0;

static bool assert_root(sat_core &sat, lra_theory &th, const Req &q, var x, var y)
{
  lit l = request(th, q, x, y);
  return sat.new_clause({l}) && sat.propagate();
}

// returns the first failure as (key-suffix, message) or empty
static void run_lra_case(const LraCase &c, const std::string &txt)
{
  // which grid points satisfy the stated root constraints?
  auto stated = [&](const Q &gx, const Q &gy)
  {
    for (auto &q : c.pre->cs)
      if (!rel_holds(q.rel, eval(q.l, gx, gy), eval(q.r, gx, gy)))
        return false;
    if (c.mid >= 0)
      for (auto &q : PRE[c.mid].cs)
        if (!rel_holds(q.rel, eval(q.l, gx, gy), eval(q.r, gx, gy)))
          return false;
    return true;
  };
  bool any_point = false;
  std::string shapes;
  // merely requesting literals must not ENLARGE the set of solutions either: a grid point that violates a stated root
  // constraint and cannot be pinned after the prelude alone must not become pinnable after the requests
  for (auto &gx : GRID)
    for (auto &gy : GRID)
    {
      if (stated(gx, gy))
        continue;
      bool pin_ok[2] = {false, false};
      for (int with_requests = 0; with_requests < 2; ++with_requests)
      {
        ++g_replays;
        vf::Arena::Scope arena;
        sat_core sat;
        lra_theory th(sat);
        var x = th.new_var(), y = th.new_var();
        if (c.pre->slack)
          g_s = lin(th.new_var(lin(x, rational::ONE) + lin(y, rational::ONE) + lin(rational(3))), rational::ONE);
        bool ok = true;
        for (auto &q : c.pre->cs)
          ok = ok && assert_root(sat, th, q, x, y);
        for (size_t i = 0; i < c.reqs.size() && ok; ++i)
        {
          if (i == 1 && c.mid >= 0)
            for (auto &q : PRE[c.mid].cs)
              ok = ok && assert_root(sat, th, q, x, y);
          if (ok && with_requests)
            request(th, c.reqs[i], x, y);
        }
        if (c.reqs.size() < 2 && c.mid >= 0)
          for (auto &q : PRE[c.mid].cs)
            ok = ok && assert_root(sat, th, q, x, y);
        bool pinned = ok && th.set(x, inf_rational(mk_rat(gx)), TRUE_lit) && th.set(y, inf_rational(mk_rat(gy)), TRUE_lit);
        if (pinned)
          pinned = sat.propagate();
        else
          th.cnfl.clear();
        pin_ok[with_requests] = pinned;
      }
      if (!pin_ok[0] && pin_ok[1])
      {
        vf::finding("C11:solution-gained-after-request", txt + " @ x=" + ref::str(gx) + " y=" + ref::str(gy), "x,y = (" + ref::str(gx) + "," + ref::str(gy) + ") violates a stated root constraint and is refused after the root constraints alone, but can be asserted once the literals have been requested");
        return;
      }
    }
  for (auto &gx : GRID)
    for (auto &gy : GRID)
    {
      if (!stated(gx, gy))
        continue;
      any_point = true;
      ++g_replays;
      vf::Arena::Scope arena;
      sat_core sat;
      lra_theory th(sat);
      var x = th.new_var(), y = th.new_var();
      if (c.pre->slack)
        g_s = lin(th.new_var(lin(x, rational::ONE) + lin(y, rational::ONE) + lin(rational(3))), rational::ONE);
      bool ok = true;
      for (auto &q : c.pre->cs)
        ok = ok && assert_root(sat, th, q, x, y);
      std::vector<lit> L;
      std::vector<std::string> shape;
      for (size_t i = 0; i < c.reqs.size() && ok; ++i)
      {
        if (i == 1 && c.mid >= 0)
          for (auto &q : PRE[c.mid].cs)
            ok = ok && assert_root(sat, th, q, x, y);
        if (!ok)
          break;
        inf_rational lbx = th.lb(x), ubx = th.ub(x), lby = th.lb(y), uby = th.ub(y);
        // the root bounds of every variable that exists already (slack variables of earlier requests included)
        std::vector<inf_rational> bounds_before;
        for (var v = 0; v < th.vals.size(); ++v)
        {
          bounds_before.push_back(th.lb(v));
          bounds_before.push_back(th.ub(v));
        }
        size_t nv = sat.assigns.size();
        lit l = request(th, c.reqs[i], x, y);
        for (var v = 0; 2 * v + 1 < bounds_before.size(); ++v)
          if (th.lb(v) != bounds_before[2 * v] || th.ub(v) != bounds_before[2 * v + 1])
          {
            vf::Arena::Pause p;
            vf::finding(std::string("C11:") + RELN[c.reqs[i].rel] + ":request-changed-root-bounds-of-a-slack", txt, "bounds of the tableau variable x" + std::to_string(v) + " changed by merely requesting " + req_txt(c.reqs[i]));
            return;
          }
        L.push_back(l);
        shape.push_back(variable(l) == FALSE_var ? "constant" : variable(l) < nv ? "shared"
                                                                                  : "fresh");
        if (th.lb(x) != lbx || th.ub(x) != ubx || th.lb(y) != lby || th.ub(y) != uby)
        {
          vf::Arena::Pause p;
          vf::finding(std::string("C11:") + RELN[c.reqs[i].rel] + ":" + shape.back() + ":request-changed-root-bounds", txt, "bounds of x/y changed by merely requesting " + req_txt(c.reqs[i]));
          return;
        }
      }
      if (!ok)
      {
        vf::Arena::Pause p;
        vf::finding("C11:prelude-refused", txt + " @ x=" + ref::str(gx) + " y=" + ref::str(gy), "the root constraints are satisfied by the grid point but asserting them failed");
        return;
      }
      // pin x,y at root level
      bool pinned = th.set(x, inf_rational(mk_rat(gx)), TRUE_lit) && th.set(y, inf_rational(mk_rat(gy)), TRUE_lit);
      if (pinned)
        pinned = sat.propagate();
      else
        th.cnfl.clear();
      if (!pinned)
      {
        vf::Arena::Pause p;
        std::string sh;
        for (auto &s : shape)
          sh += s + "+";
        vf::finding("C11:solution-lost-after-request:" + sh, txt + " @ x=" + ref::str(gx) + " y=" + ref::str(gy), "x,y = (" + ref::str(gx) + "," + ref::str(gy) + ") satisfies every stated constraint but cannot be asserted after the requests");
        return;
      }
      for (size_t i = 0; i < L.size(); ++i)
      {
        const Req &q = c.reqs[i];
        bool holds = rel_holds(q.rel, eval(q.l, gx, gy), eval(q.r, gx, gy));
        // with x and y pinned, L must be possible exactly when the relation holds, !L exactly when it does not
        std::string fail;
        bool dead = false;
        bool pos = possible(sat, L[i], dead);
        if (pos != holds)
          fail = holds ? "cannot-be-true-where-relation-holds" : "can-be-true-where-relation-fails";
        if (fail.empty() && !dead)
        {
          bool neg = possible(sat, !L[i], dead);
          if (neg == holds)
            fail = holds ? "can-be-false-where-relation-holds" : "cannot-be-false-where-relation-fails";
        }
        if (!fail.empty())
        {
          vf::Arena::Pause p;
          vf::finding(std::string("C11:") + RELN[q.rel] + ":" + shape[i] + ":" + fail, txt + " @ x=" + ref::str(gx) + " y=" + ref::str(gy), "request " + req_txt(q) + " returned " + nr::ls(L[i]) + "; at x=" + ref::str(gx) + " y=" + ref::str(gy) + " the relation " + (holds ? "holds" : "fails"));
          return;
        }
        if (dead)
          break; // a root-level conflict was (legitimately) reached: the remaining requests are judged at other grid points
      }
      if (shapes.empty())
      {
        vf::Arena::Pause p;
        for (auto &s : shape)
          shapes += s + ",";
      }
    }
  vf::distinct("outcomes", vf::fnv(shapes + (any_point ? "1" : "0") + c.pre->name));
}

static bool parse_lra_case(const std::string &txt, LraCase &c)
{
  std::istringstream is(txt);
  std::string tok;
  is >> tok; // lra
  is >> tok;
  c.pre = pre_by_name(tok);
  is >> tok; // ;
  std::vector<std::string> cur;
  while (is >> tok)
  {
    if (tok == "@")
      break;
    if (tok == ";")
    {
      if (cur.size() == 2 && cur[0] == "then")
      {
        for (size_t i = 0; i < PRE.size(); ++i)
          if (cur[1] == PRE[i].name)
            c.mid = (int)i;
      }
      else if (cur.size() == 3)
      {
        Req q;
        q.l = expr_by_name(cur[0]);
        q.r = expr_by_name(cur[2]);
        q.rel = 0;
        for (int r = 0; r < 5; ++r)
          if (cur[1] == RELN[r])
            q.rel = r;
        if (!q.l || !q.r)
          return false;
        c.reqs.push_back(q);
      }
      cur.clear();
    }
    else
      cur.push_back(tok);
  }
  return c.pre != nullptr;
}

// ======================================================================================================
// C12: difference logic
// ======================================================================================================
struct DExpr
{
  std::string name;
  Q cx, cy, k;
};
static std::vector<DExpr> DEX;
static void build_dexprs(bool thorough)
{
  std::vector<Q> cs = {Q(1), Q(-1), Q(2), Q(-2), Q(1, 2)};
  std::vector<Q> ks = {Q(0), Q(1), Q(-2)};
  if (thorough)
  {
    cs.push_back(Q(3));
    cs.push_back(Q(-1, 2));
    ks.push_back(Q(1, 2));
  }
  auto term = [](const Q &c, const char *v)
  {
    if (c == Q(1))
      return std::string(v);
    if (c == Q(-1))
      return std::string("-") + v;
    return ref::str(c) + "*" + v;
  };
  auto withk = [](std::string s, const Q &k)
  {
    if (k.is_zero())
      return s;
    return s + (k.sgn() > 0 ? "+" : "") + ref::str(k);
  };
  for (auto &k : ks)
    DEX.push_back({ref::str(k), Q(0), Q(0), k});
  for (auto &c : cs)
    for (auto &k : ks)
    {
      DEX.push_back({withk(term(c, "x"), k), c, Q(0), k});
      DEX.push_back({withk(term(c, "y"), k), Q(0), c, k});
      DEX.push_back({withk(term(c, "(x-y)"), k), c, -c, k});
    }
}
static const DExpr *dexpr_by_name(const std::string &n)
{
  for (auto &e : DEX)
    if (n == e.name)
      return &e;
  return nullptr;
}
static lin mk_dlin(const DExpr &e, var x, var y)
{
  // assembled through lin's operators, the way core builds expressions
  lin l(mk_rat(e.k));
  if (!e.cx.is_zero())
    l = l + lin(x, rational::ONE) * mk_rat(e.cx);
  if (!e.cy.is_zero())
    l = l + lin(y, rational::ONE) * mk_rat(e.cy);
  return l;
}
static Q deval(const DExpr &e, const Q &x, const Q &y) { return e.cx * x + e.cy * y + e.k; }

struct DCase
{
  bool integer; // idl / rdl
  bool xfirst;  // creation order of the two points
  int state;    // 0 empty, 1 x-y<=1, 2 x in [0,3], 3 both + y in [1,2]
  const DExpr *l;
  int rel;
  const DExpr *r;
  bool queries = false; // a query case (bounds/distance/equates) instead of a literal case
};
static std::string dcase_txt(const DCase &c)
{
  return std::string(c.integer ? "idl" : "rdl") + (c.xfirst ? " xy" : " yx") + " S" + std::to_string(c.state) + (c.queries ? " query " : " lit ") + c.l->name + " " + RELN[c.rel] + " " + c.r->name;
}
static bool state_holds(int st, const Q &x, const Q &y)
{
  if ((st == 1 || st == 3) && !(x - y <= Q(1)))
    return false;
  if ((st == 2 || st == 3) && !(x >= Q(0) && x <= Q(3)))
    return false;
  if (st == 3 && !(y >= Q(1) && y <= Q(2)))
    return false;
  return true;
}

template <class TH>
struct DTraits;
template <>
struct DTraits<idl_theory>
{
  static lit dist(idl_theory &t, var f, var to, const Q &d) { return t.new_distance(f, to, (I)d.n); }
  static Qe qe(I v) { return v >= idl_theory::inf() / 2 ? Qe(Q::inf(1)) : v <= -idl_theory::inf() / 2 ? Qe(Q::inf(-1)) : Qe(Q(v)); }
};
template <>
struct DTraits<rdl_theory>
{
  static lit dist(rdl_theory &t, var f, var to, const Q &d) { return t.new_distance(f, to, inf_rational(mk_rat(d))); }
  static Qe qe(const inf_rational &v)
  {
    rational r = v.get_rational(), e = v.get_infinitesimal();
    if (is_infinite(r))
      return Qe(Q(r.numerator(), r.denominator()));
    return Qe(Q(r.numerator(), r.denominator()), Q(e.numerator(), e.denominator()));
  }
};

template <class TH>
static bool setup_state(sat_core &sat, TH &th, int st, var x, var y)
{
  typedef DTraits<TH> T;
  std::vector<lit> ls;
  if (st == 1 || st == 3)
    ls.push_back(T::dist(th, y, x, Q(1))); // x - y <= 1
  if (st == 2 || st == 3)
  {
    ls.push_back(T::dist(th, 0, x, Q(3)));
    ls.push_back(T::dist(th, x, 0, Q(0)));
  }
  if (st == 3)
  {
    ls.push_back(T::dist(th, 0, y, Q(2)));
    ls.push_back(T::dist(th, y, 0, Q(-1)));
  }
  for (auto &l : ls)
    if (!sat.new_clause({l}) || !sat.propagate())
      return false;
  return true;
}

template <class TH>
static lit drequest(TH &th, const DCase &c, var x, var y)
{
  lin l = mk_dlin(*c.l, x, y), r = mk_dlin(*c.r, x, y);
  switch (c.rel)
  {
  case 0:
    return th.new_lt(l, r);
  case 1:
    return th.new_leq(l, r);
  case 2:
    return th.new_eq(l, r);
  case 3:
    return th.new_geq(l, r);
  default:
    return th.new_gt(l, r);
  }
}

static std::string shape_of_diff(const DCase &c)
{
  Q dx = c.l->cx - c.r->cx, dy = c.l->cy - c.r->cy;
  int nv = (!dx.is_zero()) + (!dy.is_zero());
  if (nv == 0)
    return "constant";
  if (nv == 1)
    return std::string("one-var:") + ((dx.is_zero() ? dy : dx).sgn() > 0 ? "pos" : "neg");
  // the theory looks at the coefficient of the variable with the smaller index
  Q lead = c.xfirst ? dx : dy;
  return std::string("two-var:lead-") + (lead.sgn() > 0 ? "pos" : "neg");
}

static std::vector<Q> DGRID_I = {Q(-3), Q(-2), Q(-1), Q(0), Q(1), Q(2), Q(3)};
static std::vector<Q> DGRID_R = {Q(-2), Q(-1), Q(-1, 2), Q(0), Q(1, 2), Q(1), Q(2), Q(3)};

template <class TH>
static void run_dl_lit_case(const DCase &c, const std::string &txt)
{
  typedef DTraits<TH> T;
  const std::vector<Q> &grid = c.integer ? DGRID_I : DGRID_R;
  const char *thn = c.integer ? "idl" : "rdl";
  std::string shape = shape_of_diff(c);
  std::string outcome;
  for (auto &gx : grid)
    for (auto &gy : grid)
    {
      if (!state_holds(c.state, gx, gy))
        continue;
      ++g_replays;
      vf::Arena::Scope arena;
      sat_core sat;
      TH th(sat, 2);
      var x, y;
      if (c.xfirst)
      {
        x = th.new_var();
        y = th.new_var();
      }
      else
      {
        y = th.new_var();
        x = th.new_var();
      }
      if (!setup_state(sat, th, c.state, x, y))
      {
        vf::Arena::Pause p;
        vf::finding(std::string("C12:") + thn + ":state-setup-refused", txt, "asserting the (satisfiable) state constraints failed");
        return;
      }
      lit L;
      try
      {
        L = drequest(th, c, x, y);
      }
      catch (const std::invalid_argument &)
      {
        vf::Arena::Pause p;
        outcome = "rejected";
        vf::count("rejected_forms");
        break; // the form is refused: acceptable, nothing to judge
      }
      // pin both points
      bool ok = true;
      for (auto &[v, g] : std::vector<std::pair<var, Q>>{{x, gx}, {y, gy}})
      {
        lit a = T::dist(th, 0, v, g), b = T::dist(th, v, 0, -g);
        ok = ok && sat.new_clause({a}) && sat.propagate() && sat.new_clause({b}) && sat.propagate();
      }
      if (!ok)
      {
        vf::Arena::Pause p;
        vf::finding(std::string("C12:") + thn + ":" + RELN[c.rel] + ":" + shape + ":solution-lost-after-request", txt + " @ x=" + ref::str(gx) + " y=" + ref::str(gy), "the point satisfies the state but cannot be asserted after the literal was requested (returned " + nr::ls(L) + ")");
        return;
      }
      bool holds = rel_holds(c.rel, deval(*c.l, gx, gy), deval(*c.r, gx, gy));
      bool dead = false;
      std::string fail;
      bool pos = possible(sat, L, dead);
      if (pos != holds)
        fail = holds ? "cannot-be-true-where-relation-holds" : "can-be-true-where-relation-fails";
      if (fail.empty() && !dead)
      {
        bool neg = possible(sat, !L, dead);
        if (neg == holds)
          fail = holds ? "can-be-false-where-relation-holds" : "cannot-be-false-where-relation-fails";
      }
      if (!fail.empty())
      {
        vf::Arena::Pause p;
        vf::finding(std::string("C12:") + thn + ":" + RELN[c.rel] + ":" + shape + ":" + fail, txt + " @ x=" + ref::str(gx) + " y=" + ref::str(gy), "literal " + nr::ls(L) + " for " + c.l->name + " " + RELN[c.rel] + " " + c.r->name + "; at x=" + ref::str(gx) + " y=" + ref::str(gy) + " the relation " + (holds ? "holds" : "fails"));
        return;
      }
      if (outcome.empty())
      {
        vf::Arena::Pause p;
        outcome = variable(L) == FALSE_var ? "constant" : "literal";
      }
      // the other order (seed C12-5): on a fresh theory the literal is given the truth value the point demands FIRST and
      // the point is pinned afterwards - the constraint (or its negation) is then already part of the distances when the
      // pinning constraints are created and asserted, and it must not exclude the point
      {
        ++g_replays;
        sat_core sat2;
        TH th2(sat2, 2);
        var x2, y2;
        if (c.xfirst)
        {
          x2 = th2.new_var();
          y2 = th2.new_var();
        }
        else
        {
          y2 = th2.new_var();
          x2 = th2.new_var();
        }
        bool ok2 = setup_state(sat2, th2, c.state, x2, y2);
        lit L2;
        bool have = false;
        if (ok2)
          try
          {
            L2 = drequest(th2, c, x2, y2);
            have = true;
          }
          catch (const std::invalid_argument &)
          {
          }
        if (ok2 && have)
        {
          bool ok3 = sat2.new_clause({holds ? L2 : !L2}) && sat2.propagate();
          for (auto &[v, g] : std::vector<std::pair<var, Q>>{{x2, gx}, {y2, gy}})
          {
            if (!ok3)
              break;
            lit a = T::dist(th2, 0, v, g);
            ok3 = ok3 && sat2.new_clause({a}) && sat2.propagate();
            if (!ok3)
              break;
            lit b = T::dist(th2, v, 0, -g);
            ok3 = ok3 && sat2.new_clause({b}) && sat2.propagate();
          }
          if (!ok3)
          {
            vf::Arena::Pause p;
            vf::finding(std::string("C12:") + thn + ":" + RELN[c.rel] + ":" + shape + ":point-refused-after-literal-made-" + (holds ? "true-where-relation-holds" : "false-where-relation-fails"), txt + " @ x=" + ref::str(gx) + " y=" + ref::str(gy), "the literal for " + c.l->name + " " + RELN[c.rel] + " " + c.r->name + " was asserted " + (holds ? "true" : "false") + " at root first; the point, at which the relation " + (holds ? "holds" : "fails") + ", could then not be pinned");
            return;
          }
        }
      }
    }
  vf::distinct("outcomes", vf::fnv(outcome + shape + thn + RELN[c.rel] + std::to_string(c.state)));
}

// interval of a reference expression from the variable-level distances of the live theory
template <class TH>
static void ref_interval(TH &th, var x, var y, const Q &cx, const Q &cy, const Q &k, Qe &lo, Qe &hi, bool &supported)
{
  typedef DTraits<TH> T;
  supported = true;
  if (cx.is_zero() && cy.is_zero())
  {
    lo = hi = Qe(k);
    return;
  }
  Qe a, b;
  Q c;
  if (cy.is_zero() || cx.is_zero())
  {
    var v = cy.is_zero() ? x : y;
    c = cy.is_zero() ? cx : cy;
    auto bn = th.bounds(v);
    a = T::qe(bn.first);
    b = T::qe(bn.second);
  }
  else if (cx == -cy)
  { // c*(x - y): distance(y, x) is the interval of x - y
    c = cx;
    auto d = th.distance(y, x);
    a = T::qe(d.first);
    b = T::qe(d.second);
  }
  else
  {
    supported = false;
    return;
  }
  auto scale = [&](const Qe &v)
  {
    if (v.r.is_inf())
      return Qe(Q::inf(v.r.sgn() * c.sgn()));
    return Qe(v.r * c + k, v.e * c);
  };
  lo = scale(c.sgn() > 0 ? a : b);
  hi = scale(c.sgn() > 0 ? b : a);
}

template <class TH>
static void run_dl_query_case(const DCase &c, const std::string &txt)
{
  typedef DTraits<TH> T;
  const char *thn = c.integer ? "idl" : "rdl";
  ++g_replays;
  vf::Arena::Scope arena;
  sat_core sat;
  TH th(sat, 2);
  var x, y;
  if (c.xfirst)
  {
    x = th.new_var();
    y = th.new_var();
  }
  else
  {
    y = th.new_var();
    x = th.new_var();
  }
  if (!setup_state(sat, th, c.state, x, y))
    return;
  lin l = mk_dlin(*c.l, x, y), r = mk_dlin(*c.r, x, y);
  auto show = [](const Qe &a, const Qe &b)
  { return "[" + ref::str(a) + ", " + ref::str(b) + "]"; };
  // bounds(l)
  {
    Qe lo, hi;
    bool sup;
    ref_interval(th, x, y, c.l->cx, c.l->cy, c.l->k, lo, hi, sup);
    if (sup)
      try
      {
        auto b = th.bounds(l);
        Qe glo = T::qe(b.first), ghi = T::qe(b.second);
        if (glo != lo || ghi != hi)
        {
          vf::Arena::Pause p;
          std::string sh = (c.l->cx.is_zero() || c.l->cy.is_zero()) ? ((c.l->cx.is_zero() ? c.l->cy : c.l->cx).sgn() > 0 ? "one-var:pos" : "one-var:neg") : "two-var";
          if (!(c.l->cx.is_zero() && c.l->cy.is_zero()))
          {
            Q cc = c.l->cx.is_zero() ? c.l->cy : c.l->cx;
            if (ref::zabs(cc.n) != 1 || cc.d != 1)
              sh += ":scaled";
          }
          vf::finding(std::string("C12:") + thn + ":bounds(lin):" + sh, dcase_txt(c), "bounds(" + c.l->name + ") = " + show(glo, ghi) + " but the variable-level distances give " + show(lo, hi));
          return;
        }
      }
      catch (const std::invalid_argument &)
      {
      }
  }
  // distance(l, r) = interval of r - l ; equates(l, r) = 0 in interval of l - r
  {
    Qe lo, hi;
    bool sup;
    ref_interval(th, x, y, c.r->cx - c.l->cx, c.r->cy - c.l->cy, c.r->k - c.l->k, lo, hi, sup);
    if (sup)
    {
      try
      {
        auto d = th.distance(l, r);
        Qe glo = T::qe(d.first), ghi = T::qe(d.second);
        if (glo != lo || ghi != hi)
        {
          vf::Arena::Pause p;
          vf::finding(std::string("C12:") + thn + ":distance(lin,lin):" + shape_of_diff(c), dcase_txt(c), "distance(" + c.l->name + ", " + c.r->name + ") = " + show(glo, ghi) + " but (to - from) ranges over " + show(lo, hi));
          return;
        }
      }
      catch (const std::invalid_argument &)
      {
      }
      try
      {
        bool e = th.equates(l, r);
        bool exp = lo <= Qe(Q(0)) && hi >= Qe(Q(0));
        if (e != exp)
        {
          vf::Arena::Pause p;
          vf::finding(std::string("C12:") + thn + ":equates(lin,lin):" + shape_of_diff(c) + (exp ? ":says-never-equal" : ":says-may-be-equal"), dcase_txt(c), std::string("equates(") + c.l->name + ", " + c.r->name + ") = " + (e ? "true" : "false") + " but (r - l) ranges over " + show(lo, hi));
          return;
        }
      }
      catch (const std::invalid_argument &)
      {
      }
    }
  }
  vf::distinct("outcomes", vf::fnv(dcase_txt(c)));
}

static void run_dl_case(const DCase &c, const std::string &txt)
{
  if (c.queries)
  {
    if (c.integer)
      run_dl_query_case<idl_theory>(c, txt);
    else
      run_dl_query_case<rdl_theory>(c, txt);
  }
  else
  {
    if (c.integer)
      run_dl_lit_case<idl_theory>(c, txt);
    else
      run_dl_lit_case<rdl_theory>(c, txt);
  }
}
static bool parse_dl_case(const std::string &txt, DCase &c)
{
  std::istringstream is(txt);
  std::string th, ord, st, kind, l, rel, r;
  is >> th >> ord >> st >> kind >> l >> rel >> r;
  c.integer = th == "idl";
  c.xfirst = ord == "xy";
  c.state = std::atoi(st.c_str() + 1);
  c.queries = kind == "query";
  c.l = dexpr_by_name(l);
  c.r = dexpr_by_name(r);
  c.rel = 0;
  for (int i = 0; i < 5; ++i)
    if (rel == RELN[i])
      c.rel = i;
  return c.l && c.r;
}
struct DUnit
{
  bool integer, xfirst;
  int state;
  size_t l;
  bool queries;
};
static std::vector<DUnit> DUnits;
static void run_dl_unit(uint64_t u)
{
  const DUnit &U = DUnits[u];
  uint64_t cases = 0;
  g_replays = 0;
  for (size_t ri = 0; ri < DEX.size(); ++ri)
    for (int rel = 0; rel < (U.queries ? 1 : 5); ++rel)
    {
      DCase c{U.integer, U.xfirst, U.state, &DEX[U.l], rel, &DEX[ri], U.queries};
      std::string txt = dcase_txt(c);
      if (!vf::begin_case(txt))
        continue;
      ++cases;
      run_dl_case(c, txt);
      vf::end_case();
      if ((cases & 0xff) == 1)
        vf::sample(txt);
    }
  vf::count("cases", cases);
  vf::count("replays", g_replays);
}

// ---- enumeration -------------------------------------------------------------------------------------
struct UnitSpec
{
  int pre;
  int first_l; // index of the left expression of the first request
  bool pairs;
  bool mids;
  bool slack = false; // expressions are taken from the slack pool
};
static std::vector<const Expr *> slack_pool()
{
  std::vector<const Expr *> v;
  for (auto &e : EXS)
    v.push_back(&e);
  for (const char *n : {"x", "y", "x+y", "1", "0", "x-y"})
    v.push_back(expr_by_name(n));
  return v;
}
static std::vector<UnitSpec> Units;
static size_t g_nexpr = 0; // how many expressions of EX are used

// requests related to q: same, swapped with flipped relation, scaled by 2 (through 2*x style entries when available),
// complement relation, and the same sides with every other relation
static std::vector<Req> related(const Req &q)
{
  std::vector<Req> r;
  static const int flip[] = {4, 3, 2, 1, 0};
  static const int compl_[] = {3, 4, 2, 0, 1};
  r.push_back(q);
  r.push_back(Req{q.r, flip[q.rel], q.l});
  r.push_back(Req{q.l, compl_[q.rel], q.r});
  for (int rel = 0; rel < 5; ++rel)
    if (rel != q.rel)
      r.push_back(Req{q.l, rel, q.r});
  return r;
}

static void run_unit(uint64_t u)
{
  const UnitSpec &U = Units[u];
  uint64_t cases = 0;
  g_replays = 0;
  auto go = [&](const LraCase &c)
  {
    std::string txt = lra_case_txt(c);
    if (!vf::begin_case(txt))
      return;
    ++cases;
    run_lra_case(c, txt);
    vf::end_case();
    if ((cases & 0x3ff) == 1)
      vf::sample(txt);
  };
  if (U.slack)
  {
    auto pool = slack_pool();
    const Expr *l = pool[U.first_l];
    for (auto r : pool)
      for (int rel = 0; rel < 5; ++rel)
      {
        if (l->name[0] != 's' && l->name[0] != '2' && r->name[0] != 's' && r->name[0] != '2')
          continue; // the slack has to occur
        LraCase c;
        c.pre = &PRE[U.pre];
        c.reqs.push_back(Req{l, rel, r});
        go(c);
        for (int mid : {-1, 9})
        {
          if (mid == U.pre)
            continue;
          for (auto &q2 : related(c.reqs[0]))
          {
            LraCase c2 = c;
            c2.mid = mid;
            c2.reqs.push_back(q2);
            go(c2);
          }
          for (const char *a : {"s", "x", "x+y"})
            for (const char *b : {"1", "y"})
              for (int rel2 : {1, 4})
              {
                LraCase c2 = c;
                c2.mid = mid;
                c2.reqs.push_back(Req{expr_by_name(a), rel2, expr_by_name(b)});
                go(c2);
              }
        }
      }
    vf::count("cases", cases);
    vf::count("replays", g_replays);
    return;
  }
  const Expr *l = &EX[U.first_l];
  for (size_t ri = 0; ri < g_nexpr; ++ri)
    for (int rel = 0; rel < 5; ++rel)
    {
      LraCase c;
      c.pre = &PRE[U.pre];
      c.reqs.push_back(Req{l, rel, &EX[ri]});
      go(c);
      if (!U.pairs)
        continue;
      std::vector<int> mids = {-1};
      if (U.mids)
        mids = {-1, 1, 3, 5};
      for (int mid : mids)
      {
        for (auto &q2 : related(c.reqs[0]))
        {
          LraCase c2 = c;
          c2.mid = mid;
          c2.reqs.push_back(q2);
          go(c2);
        }
        // second request from a small independent pool
        for (const char *a : {"x", "x+y", "2*x", "x-y"})
          for (const char *b : {"0", "1", "y"})
            for (int rel2 : {1, 4})
            {
              LraCase c2 = c;
              c2.mid = mid;
              c2.reqs.push_back(Req{expr_by_name(a), rel2, expr_by_name(b)});
              go(c2);
            }
      }
    }
  vf::count("cases", cases);
  vf::count("replays", g_replays);
}

int main(int argc, char **argv)
{
  vf::Args args(argc, argv);
  build_exprs();
  build_slack_exprs();
  build_preludes();
  std::string tier = args.get("tier", "quick");
  std::string prop = args.get("prop", "C11");
  bool th_tier = tier == "thorough";
  build_dexprs(th_tier);
  if (args.has("replay") && prop == "C12")
  {
    std::string txt = args.get("replay");
    size_t at = txt.find(" @ ");
    if (at != std::string::npos)
      txt = txt.substr(0, at);
    DCase c;
    if (!parse_dl_case(txt, c))
    {
      std::printf("replay: cannot parse case\n");
      return 2;
    }
    run_dl_case(c, dcase_txt(c));
    for (auto &[k, f] : vf::st().sink.findings)
      std::printf("REPRODUCED key=%s\n  %s\n  %s\n", k.c_str(), f.first_case.c_str(), f.msg.c_str());
    return vf::st().sink.findings.empty() ? 0 : 1;
  }
  if (prop == "C12")
  {
    for (int integer = 0; integer < 2; ++integer)
      for (int xf = 0; xf < 2; ++xf)
        for (int st = 0; st < 4; ++st)
          for (size_t l = 0; l < DEX.size(); ++l)
          {
            if (st < 3)
              DUnits.push_back(DUnit{integer == 1, xf == 1, st, l, false});
            DUnits.push_back(DUnit{integer == 1, xf == 1, st, l, true});
          }
    vf::Options opt;
    opt.jobs = (int)args.num("jobs", 16);
    opt.batch = 4;
    opt.case_limit_ms = 10000;
    long dl = args.num("deadline_s", 0);
    if (dl)
      opt.deadline_ms = vf::now_ms() + (uint64_t)dl * 1000;
    opt.crash_key = [](uint64_t, const std::string &text, const std::string &what)
    { return std::string("C12:") + text.substr(0, 3) + ":" + (what == "hang" ? "hang" : "abort") + (text.find(" query ") != std::string::npos ? "-in-query" : "-in-literal-request"); };
    uint64_t t0 = vf::now_ms();
    vf::RunResult rr = vf::run_units(DUnits.size(), run_dl_unit, opt);
    std::map<std::string, std::string> extra;
    extra["wall_ms"] = std::to_string(vf::now_ms() - t0);
    extra["expressions"] = std::to_string(DEX.size());
    vf::write_result(args.get("out", "/dev/stdout"), rr.exhaustive, extra);
    return 0;
  }
  if (args.has("replay"))
  {
    std::string txt = args.get("replay");
    LraCase c;
    if (!parse_lra_case(txt, c))
    {
      std::printf("replay: cannot parse case\n");
      return 2;
    }
    run_lra_case(c, lra_case_txt(c));
    for (auto &[k, f] : vf::st().sink.findings)
      std::printf("REPRODUCED key=%s\n  %s\n  %s\n", k.c_str(), f.first_case.c_str(), f.msg.c_str());
    return vf::st().sink.findings.empty() ? 0 : 1;
  }
  bool th = tier == "thorough";
  g_nexpr = th ? EX.size() : 12;
  for (size_t p = 0; p < PRE.size(); ++p)
    if (PRE[p].slack)
      for (size_t l = 0; l < slack_pool().size(); ++l)
        Units.push_back(UnitSpec{(int)p, (int)l, true, false, true});
    else
      for (size_t l = 0; l < g_nexpr; ++l)
        Units.push_back(UnitSpec{(int)p, (int)l, th || p < 6, th});
  vf::Options opt;
  opt.jobs = (int)args.num("jobs", 16);
  opt.batch = 1;
  opt.case_limit_ms = 10000;
  long dl = args.num("deadline_s", 0);
  if (dl)
    opt.deadline_ms = vf::now_ms() + (uint64_t)dl * 1000;
  opt.crash_key = [](uint64_t, const std::string &text, const std::string &what)
  { return std::string("C11:") + (what == "hang" ? "hang" : "abort") + "-while-requesting-or-asserting"; };
  uint64_t t0 = vf::now_ms();
  vf::RunResult rr = vf::run_units(Units.size(), run_unit, opt);
  std::map<std::string, std::string> extra;
  extra["wall_ms"] = std::to_string(vf::now_ms() - t0);
  extra["expressions"] = std::to_string(g_nexpr);
  extra["preludes"] = std::to_string(PRE.size());
  extra["grid_points"] = std::to_string(GRID.size() * GRID.size());
  vf::write_result(args.get("out", "/dev/stdout"), rr.exhaustive, extra);
  return 0;
}
