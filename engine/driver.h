// Generic exhaustive-enumeration driver: fork-per-batch worker pool, crash/hang isolation,
// result merging, JSON output.
//
// A harness supplies   void run_unit(uint64_t unit)   which enumerates the cases of one unit and
// reports through the vf:: functions below.  The driver runs units [0,n) in forked children (16 at
// a time), each child handling a contiguous batch.  A child that dies or exceeds the per-case time
// limit is attributed to the case named by the shared-memory marker; that case becomes a finding
// (after a confirming solo re-run for hangs) and the rest of the unit resumes after it.
#pragma once
#include <algorithm>
#include <cerrno>
#include <chrono>
#include <csignal>
#include <cstdint>
#include <cstdio>
#include <cstdlib>
#include <cstring>
#include <fcntl.h>
#include <functional>
#include <map>
#include <set>
#include <string>
#include <sys/mman.h>
#include <sys/resource.h>
#include <sys/wait.h>
#include <unistd.h>
#include <unordered_set>
#include <vector>
#include "arena_flag.h"

namespace vf
{
  inline uint64_t now_ms()
  {
    return std::chrono::duration_cast<std::chrono::milliseconds>(std::chrono::steady_clock::now().time_since_epoch()).count();
  }
  inline uint64_t fnv(const void *data, size_t n, uint64_t h = 1469598103934665603ull)
  {
    const unsigned char *p = (const unsigned char *)data;
    for (size_t i = 0; i < n; ++i)
    {
      h ^= p[i];
      h *= 1099511628211ull;
    }
    return h;
  }
  inline uint64_t fnv(const std::string &s, uint64_t h = 1469598103934665603ull) { return fnv(s.data(), s.size(), h); }

  struct Finding
  {
    uint64_t count = 0;
    std::string first_case, msg;
  };

  struct Sink
  {
    std::map<std::string, uint64_t> counters;
    std::map<std::string, std::unordered_set<uint64_t>> distinct;
    std::map<std::string, Finding> findings;
    std::vector<std::string> samples;
    void clear()
    {
      counters.clear();
      distinct.clear();
      findings.clear();
      samples.clear();
    }
  };

  struct Marker
  {
    volatile uint64_t unit, case_no, t_start_ms, active;
    char text[8192];
  };

  struct State
  {
    Sink sink;                       // in a child: results of the current batch; in the parent: merged
    Marker *marker = nullptr;        // shared with the parent
    uint64_t skip_through = 0;       // cases with number <= this are skipped (resume after a crash)
    std::vector<uint64_t> dead_cases; // case numbers of this unit that killed earlier workers (never to be re-executed)
    uint64_t only_case = 0;          // confirm mode: run only this case number
    uint64_t case_no = 0;            // running case number within the unit
    bool in_child = false;
    std::string replay_text;         // replay mode: run only the case with exactly this text
    bool replay_hit = false;
    int out_fd = -1;                 // child: result stream
    size_t max_samples = 6;
    uint64_t sample_stride = 1;
  };
  inline State &st()
  {
    static State s;
    return s;
  }

  // ---- reporting API used by harnesses -------------------------------------------------------
  // Announces the next case; returns false if it must be skipped.
  inline bool begin_case(const std::string &text)
  {
    NoArena na;
    State &s = st();
    ++s.case_no;
    if (!s.replay_text.empty())
    {
      if (text != s.replay_text)
        return false;
      s.replay_hit = true;
      return true;
    }
    if (s.only_case ? s.case_no != s.only_case : s.case_no <= s.skip_through)
      return false;
    if (s.marker)
    {
      size_t n = std::min(text.size(), sizeof(s.marker->text) - 1);
      std::memcpy((void *)s.marker->text, text.data(), n);
      ((char *)s.marker->text)[n] = 0;
      s.marker->case_no = s.case_no;
      s.marker->t_start_ms = now_ms();
      s.marker->active = 1;
    }
    return true;
  }
  // records what is being executed without opening a case (shown if the worker dies there)
  inline void note(const std::string &text)
  {
    State &s = st();
    if (s.marker && !s.marker->active)
    {
      size_t n = std::min(text.size(), sizeof(s.marker->text) - 1);
      std::memcpy((void *)s.marker->text, text.data(), n);
      ((char *)s.marker->text)[n] = 0;
    }
  }
  inline bool is_dead_case()
  {
    State &s = st();
    return std::find(s.dead_cases.begin(), s.dead_cases.end(), s.case_no) != s.dead_cases.end();
  }
  inline void end_case()
  {
    if (st().marker)
      st().marker->active = 0;
  }
  inline void count(const std::string &name, uint64_t n = 1)
  {
    NoArena na;
    st().sink.counters[name] += n;
  }
  inline void distinct(const std::string &name, uint64_t h)
  {
    NoArena na;
    st().sink.distinct[name].insert(h);
  }
  inline std::string esc(const std::string &s);
  inline void write_all(int fd, const std::string &s);
  // In a child a finding is written through at once, so that it survives a later crash of the
  // same unit (only complete unit blocks are kept for counters).
  inline void finding(const std::string &key, const std::string &c, const std::string &msg)
  {
    NoArena na;
    if (st().in_child && st().out_fd >= 0)
    {
      static std::set<std::string> written; // per child process
      if (written.insert(key).second)
      {
        write_all(st().out_fd, "X\t" + esc(key) + "\t1\t" + esc(c) + "\t" + esc(msg) + "\n");
        return;
      }
    }
    Finding &f = st().sink.findings[key];
    if (f.count++ == 0)
    {
      f.first_case = c;
      f.msg = msg;
    }
  }
  inline void sample(const std::string &s)
  {
    NoArena na;
    if (st().sink.samples.size() < st().max_samples)
      st().sink.samples.push_back(s);
  }

  // ---- serialisation ---------------------------------------------------------------------------
  inline std::string esc(const std::string &s)
  {
    std::string o;
    for (char c : s)
      if (c == '\n')
        o += "\\n";
      else if (c == '\t')
        o += "\\t";
      else if (c == '\\')
        o += "\\\\";
      else
        o += c;
    return o;
  }
  inline std::string unesc(const std::string &s)
  {
    std::string o;
    for (size_t i = 0; i < s.size(); ++i)
      if (s[i] == '\\' && i + 1 < s.size())
      {
        ++i;
        o += s[i] == 'n' ? '\n' : s[i] == 't' ? '\t'
                                              : s[i];
      }
      else
        o += s[i];
    return o;
  }
  inline std::string json_str(const std::string &s)
  {
    std::string o = "\"";
    char buf[8];
    for (unsigned char c : s)
      if (c == '"')
        o += "\\\"";
      else if (c == '\\')
        o += "\\\\";
      else if (c == '\n')
        o += "\\n";
      else if (c == '\t')
        o += "\\t";
      else if (c < 0x20)
      {
        std::snprintf(buf, sizeof buf, "\\u%04x", c);
        o += buf;
      }
      else
        o += (char)c;
    // invalid UTF-8 is replaced bytewise
    std::string v;
    for (size_t i = 0; i < o.size();)
    {
      unsigned char c = o[i];
      size_t n = c < 0x80 ? 1 : (c >> 5) == 6 ? 2 : (c >> 4) == 14 ? 3 : (c >> 3) == 30 ? 4 : 0;
      bool ok = n > 0 && i + n <= o.size();
      for (size_t k = 1; ok && k < n; ++k)
        ok = ((unsigned char)o[i + k] >> 6) == 2;
      if (ok)
      {
        v.append(o, i, n);
        i += n;
      }
      else
      {
        std::snprintf(buf, sizeof buf, "\\u%04x", c);
        v += buf;
        ++i;
      }
    }
    return v + "\"";
  }

  inline void write_all(int fd, const std::string &s)
  {
    size_t o = 0;
    while (o < s.size())
    {
      ssize_t w = ::write(fd, s.data() + o, s.size() - o);
      if (w <= 0)
      {
        if (errno == EINTR)
          continue;
        break;
      }
      o += (size_t)w;
    }
  }
  inline std::string dump_sink(const Sink &k)
  {
    std::string o;
    char buf[64];
    for (auto &[n, v] : k.counters)
      o += "C\t" + n + "\t" + std::to_string(v) + "\n";
    for (auto &[n, set] : k.distinct)
      for (uint64_t h : set)
      {
        std::snprintf(buf, sizeof buf, "%llx", (unsigned long long)h);
        o += "D\t" + n + "\t" + buf + "\n";
      }
    for (auto &[key, f] : k.findings)
      o += "F\t" + esc(key) + "\t" + std::to_string(f.count) + "\t" + esc(f.first_case) + "\t" + esc(f.msg) + "\n";
    for (auto &s : k.samples)
      o += "S\t" + esc(s) + "\n";
    return o;
  }
  inline std::vector<std::string> split_tab(const std::string &l)
  {
    std::vector<std::string> r;
    size_t p = 0;
    while (true)
    {
      size_t q = l.find('\t', p);
      if (q == std::string::npos)
      {
        r.push_back(l.substr(p));
        break;
      }
      r.push_back(l.substr(p, q - p));
      p = q + 1;
    }
    return r;
  }
  inline void merge_line(Sink &k, const std::string &l, size_t max_samples)
  {
    auto f = split_tab(l);
    if (f[0] == "C" && f.size() == 3)
      k.counters[f[1]] += std::strtoull(f[2].c_str(), nullptr, 10);
    else if (f[0] == "D" && f.size() == 3)
      k.distinct[f[1]].insert(std::strtoull(f[2].c_str(), nullptr, 16));
    else if ((f[0] == "F" || f[0] == "X") && f.size() == 5)
    {
      Finding &x = k.findings[unesc(f[1])];
      // keep the shortest witness seen (enumeration is simplest-first inside a unit, not across workers)
      if (x.count == 0 || (x.first_case.empty() && !f[3].empty()) || (!f[3].empty() && f[3].size() < x.first_case.size()))
      {
        x.first_case = unesc(f[3]);
        x.msg = unesc(f[4]);
      }
      x.count += std::strtoull(f[2].c_str(), nullptr, 10);
    }
    else if (f[0] == "S" && f.size() == 2)
    {
      if (k.samples.size() < max_samples)
        k.samples.push_back(unesc(f[1]));
    }
  }

  // ---- the driver ------------------------------------------------------------------------------
  struct Options
  {
    int jobs = 16;
    uint64_t batch = 1;              // units per child
    uint64_t case_limit_ms = 20000;  // per-case wall limit
    uint64_t deadline_ms = 0;        // absolute (now_ms based); 0 = none
    size_t rlimit_as_mb = 0;         // address-space limit for children (0 = none)
    uint64_t max_dead_cases = 0;     // stop handing out new work after this many aborted/hung cases (0 = never)
    uint64_t first_unit = 0;         // debugging aid: start at this unit
    // maps (unit, case text, what) of a dead child to a finding key
    std::function<std::string(uint64_t, const std::string &, const std::string &)> crash_key;
  };

  struct Child
  {
    pid_t pid = -1;
    int out_fd = -1, err_fd = -1;
    uint64_t first = 0, last = 0; // units [first,last)
    uint64_t skip_through = 0, only_case = 0;
    std::vector<uint64_t> dead;
    Marker *marker = nullptr;
    bool confirm = false;
    uint64_t limit_ms = 0;
  };

  struct RunResult
  {
    uint64_t units_done = 0, units_total = 0;
    bool exhaustive = true;
    bool stopped_early = false; // max_dead_cases reached
  };

  inline std::string read_fd(int fd, size_t max = size_t(1) << 30)
  {
    std::string s;
    lseek(fd, 0, SEEK_SET);
    char buf[65536];
    ssize_t r;
    while ((r = ::read(fd, buf, sizeof buf)) > 0 && s.size() < max)
      s.append(buf, (size_t)r);
    return s;
  }

  inline RunResult run_units(uint64_t n_units, const std::function<void(uint64_t)> &run_unit, const Options &opt)
  {
    State &S = st();
    RunResult rr;
    rr.units_total = n_units;
    struct Job
    {
      uint64_t first, last, skip_through, only_case;
      bool confirm;
      std::string confirm_text, confirm_what;
      std::vector<uint64_t> dead;
    };
    std::vector<Job> queue; // extra jobs (resumes, confirms) take priority over fresh units
    uint64_t next = opt.first_unit;
    std::vector<Child> running;
    std::vector<Marker *> free_markers;
    auto get_marker = [&]() -> Marker *
    {
      if (!free_markers.empty())
      {
        Marker *m = free_markers.back();
        free_markers.pop_back();
        return m;
      }
      void *p = mmap(nullptr, sizeof(Marker), PROT_READ | PROT_WRITE, MAP_SHARED | MAP_ANONYMOUS, -1, 0);
      return (Marker *)p;
    };
    auto spawn = [&](const Job &j)
    {
      Child c;
      c.first = j.first;
      c.last = j.last;
      c.skip_through = j.skip_through;
      c.only_case = j.only_case;
      c.dead = j.dead;
      c.confirm = j.confirm;
      c.limit_ms = j.confirm ? opt.case_limit_ms * 5 : opt.case_limit_ms;
      c.marker = get_marker();
      std::memset((void *)c.marker, 0, sizeof(Marker));
      c.marker->unit = j.first;
      c.out_fd = memfd_create("vf-out", 0);
      c.err_fd = memfd_create("vf-err", 0);
      fflush(stdout);
      fflush(stderr);
      pid_t pid = fork();
      if (pid < 0)
      {
        perror("fork");
        std::exit(2);
      }
      if (pid == 0)
      {
        dup2(c.err_fd, 2);
        if (opt.rlimit_as_mb)
        {
          struct rlimit rl;
          rl.rlim_cur = rl.rlim_max = (rlim_t)opt.rlimit_as_mb << 20;
          setrlimit(RLIMIT_AS, &rl);
        }
        struct rlimit core = {0, 0};
        setrlimit(RLIMIT_CORE, &core);
        S.in_child = true;
        S.out_fd = c.out_fd;
        S.marker = c.marker;
        S.sink.clear();
        for (uint64_t u = j.first; u < j.last; ++u)
        {
          S.case_no = 0;
          S.skip_through = (u == j.first) ? j.skip_through : 0;
          S.dead_cases = (u == j.first) ? j.dead : std::vector<uint64_t>();
          S.only_case = (u == j.first) ? j.only_case : 0;
          c.marker->unit = u;
          c.marker->active = 0;
          run_unit(u);
          // one block per unit: the parent keeps complete blocks only
          std::string blk = "U\t" + std::to_string(u) + "\n" + dump_sink(S.sink) + "E\n";
          write_all(c.out_fd, blk);
          S.sink.clear();
        }
        _exit(0);
      }
      c.pid = pid;
      running.push_back(c);
    };
    auto absorb = [&](Child &c, uint64_t &last_complete_unit, bool &any_complete)
    {
      std::string out = read_fd(c.out_fd);
      size_t p = 0;
      any_complete = false;
      std::vector<std::string> block;
      uint64_t cur = 0;
      while (p < out.size())
      {
        size_t q = out.find('\n', p);
        if (q == std::string::npos)
          break;
        std::string l = out.substr(p, q - p);
        p = q + 1;
        if (l.size() > 1 && l[0] == 'X' && l[1] == '\t')
          merge_line(S.sink, l, S.max_samples);
        else if (l.size() > 1 && l[0] == 'U' && l[1] == '\t')
        {
          block.clear();
          cur = std::strtoull(l.c_str() + 2, nullptr, 10);
        }
        else if (l == "E")
        {
          for (auto &b : block)
            merge_line(S.sink, b, S.max_samples);
          any_complete = true;
          last_complete_unit = cur;
          block.clear();
        }
        else
          block.push_back(l);
      }
    };

    bool deadline_hit = false;
    uint64_t done_units = 0;
    while (true)
    {
      if (opt.deadline_ms && now_ms() > opt.deadline_ms)
        deadline_hit = true;
      if (opt.max_dead_cases && S.sink.counters["cases_aborted_or_hung"] >= opt.max_dead_cases && !rr.stopped_early)
      {
        rr.stopped_early = true;
        deadline_hit = true;
        // drop queued resumes (confirm jobs are kept: they decide whether a hang is real)
        std::vector<Job> keep;
        for (auto &j : queue)
          if (j.confirm)
            keep.push_back(j);
        queue.swap(keep);
      }
      while ((int)running.size() < opt.jobs)
      {
        if (!queue.empty())
        {
          Job j = queue.back();
          queue.pop_back();
          spawn(j);
        }
        else if (next < n_units && !deadline_hit)
        {
          Job j{next, std::min(n_units, next + opt.batch), 0, 0, false, "", ""};
          next = j.last;
          spawn(j);
        }
        else
          break;
      }
      if (running.empty())
        break;
      // reap / watch
      bool progressed = false;
      for (size_t i = 0; i < running.size();)
      {
        Child &c = running[i];
        int status = 0;
        pid_t r = waitpid(c.pid, &status, WNOHANG);
        std::string what;
        bool dead = false;
        if (r == c.pid)
        {
          dead = true;
          if (WIFEXITED(status) && WEXITSTATUS(status) == 0)
            what = "";
          else if (WIFSIGNALED(status))
            what = std::string("signal ") + std::to_string(WTERMSIG(status)) + " (" + strsignal(WTERMSIG(status)) + ")";
          else
            what = "exit status " + std::to_string(WEXITSTATUS(status));
        }
        else if (c.marker->active && now_ms() > c.marker->t_start_ms + c.limit_ms)
        {
          kill(c.pid, SIGKILL);
          waitpid(c.pid, &status, 0);
          dead = true;
          what = "hang";
        }
        if (!dead)
        {
          ++i;
          continue;
        }
        progressed = true;
        uint64_t last_complete = 0;
        bool any = false;
        if (!c.confirm)
          absorb(c, last_complete, any);
        if (!what.empty())
        {
          uint64_t u = c.marker->unit, k = c.marker->case_no;
          std::string text((const char *)c.marker->text);
          std::string err = read_fd(c.err_fd, 1 << 16);
          if (c.confirm)
          { // a solo re-run died or hung again: it is a finding
            std::string key = opt.crash_key ? opt.crash_key(u, text, what) : ("abort:" + what);
            Finding &f = S.sink.findings[key];
            if (f.count++ == 0)
            {
              f.first_case = text;
              f.msg = what + (err.empty() ? "" : " | " + err.substr(0, 1500));
            }
          }
          else if (!c.marker->active && what != "hang")
          { // died outside any case: harness problem
            std::fprintf(stderr, "driver: child for units [%llu,%llu) died outside a case: %s\n%s\nlast note: %s\n", (unsigned long long)c.first, (unsigned long long)c.last, what.c_str(), err.c_str(), text.c_str());
            std::exit(2);
          }
          else
          {
            if (what == "hang")
            { // confirm alone with a longer limit before calling it a hang
              queue.push_back(Job{u, u + 1, 0, k, true, text, what});
            }
            else
            {
              std::string key = opt.crash_key ? opt.crash_key(u, text, what) : ("abort:" + what);
              Finding &f = S.sink.findings[key];
              if (f.count++ == 0)
              {
                f.first_case = text;
                f.msg = what + (err.empty() ? "" : " | " + err.substr(0, 1500));
              }
            }
            S.sink.counters["cases_aborted_or_hung"] += 1;
            // resume the unit after the offending case, then the rest of the batch
            if (!rr.stopped_early)
            {
              std::vector<uint64_t> dead = (u == c.first) ? c.dead : std::vector<uint64_t>();
              dead.push_back(k);
              queue.push_back(Job{u, c.last, k, 0, false, "", "", dead});
            }
            done_units += (u - c.first);
          }
        }
        else if (!c.confirm)
          done_units += (c.last - c.first);
        close(c.out_fd);
        close(c.err_fd);
        free_markers.push_back(c.marker);
        running.erase(running.begin() + i);
      }
      if (!progressed)
        usleep(1000);
    }
    rr.units_done = done_units;
    rr.exhaustive = (next >= n_units) && !deadline_hit;
    if (next >= n_units && deadline_hit && done_units >= n_units)
      rr.exhaustive = true;
    return rr;
  }

  // ---- result file -----------------------------------------------------------------------------
  inline void write_result(const std::string &path, bool exhaustive, const std::map<std::string, std::string> &extra_json)
  {
    const Sink &k = st().sink;
    std::string o = "{\n";
    o += " \"exhaustive\": " + std::string(exhaustive ? "true" : "false") + ",\n \"counters\": {";
    bool first = true;
    for (auto &[n, v] : k.counters)
    {
      o += (first ? "" : ", ") + json_str(n) + ": " + std::to_string(v);
      first = false;
    }
    o += "},\n \"distinct\": {";
    first = true;
    for (auto &[n, set] : k.distinct)
    {
      o += (first ? "" : ", ") + json_str(n) + ": " + std::to_string(set.size());
      first = false;
    }
    o += "},\n \"findings\": [";
    first = true;
    for (auto &[key, f] : k.findings)
    {
      o += std::string(first ? "" : ",") + "\n  {\"key\": " + json_str(key) + ", \"count\": " + std::to_string(f.count) + ", \"case\": " + json_str(f.first_case) + ", \"msg\": " + json_str(f.msg) + "}";
      first = false;
    }
    o += "],\n \"samples\": [";
    first = true;
    for (auto &s : k.samples)
    {
      o += (first ? "" : ", ") + json_str(s);
      first = false;
    }
    o += "]";
    for (auto &[n, v] : extra_json)
      o += ",\n " + json_str(n) + ": " + v;
    o += "\n}\n";
    FILE *f = std::fopen(path.c_str(), "w");
    if (!f)
    {
      perror(path.c_str());
      std::exit(2);
    }
    std::fwrite(o.data(), 1, o.size(), f);
    std::fclose(f);
  }

  // ---- tiny argv helper ------------------------------------------------------------------------
  struct Args
  {
    std::map<std::string, std::string> kv;
    Args(int argc, char **argv)
    {
      for (int i = 1; i < argc; ++i)
      {
        std::string a = argv[i];
        if (a.rfind("--", 0) == 0)
        {
          std::string k = a.substr(2), v = "1";
          size_t e = k.find('=');
          if (e != std::string::npos)
          {
            v = k.substr(e + 1);
            k = k.substr(0, e);
          }
          else if (i + 1 < argc && std::string(argv[i + 1]).rfind("--", 0) != 0)
            v = argv[++i];
          kv[k] = v;
        }
      }
    }
    std::string get(const std::string &k, const std::string &d = "") const
    {
      auto it = kv.find(k);
      return it == kv.end() ? d : it->second;
    }
    long num(const std::string &k, long d) const
    {
      auto it = kv.find(k);
      return it == kv.end() ? d : std::atol(it->second.c_str());
    }
    bool has(const std::string &k) const { return kv.count(k); }
  };
} // namespace vf
