// Deterministic allocation for harness drivers.
//
// Global operator new/delete are replaced by a bump allocator over a region mapped at a fixed
// address.  A driver brackets every case with  vf::Arena::Scope s;  : on entry the bump pointer is
// reset, so every object the code under test allocates gets the same address whenever the same
// case is run (in the exploring worker and in the one-case replay process).  That makes the
// iteration order of pointer-keyed containers (unordered_set<row*>, set<theory*>, ...) a function
// of the case alone.  Outside a scope, and inside vf::Arena::Pause, allocation goes to malloc.
//
// Include in exactly one translation unit of the driver (it defines the replaced operators).
#pragma once
#include <cstddef>
#include <cstdint>
#include <cstdio>
#include <cstdlib>
#include <cstring>
#include <new>
#include <sys/mman.h>
#include "arena_flag.h"

namespace vf
{
  struct Arena
  {
    static constexpr uintptr_t BASE = 0x7e0000000000ull;
    static constexpr size_t SIZE = size_t(1) << 32; // 4 GiB of address space, touched lazily
    static inline char *base = nullptr;
    static inline size_t off = 0;
    static inline size_t high = 0;
    static inline size_t salt = 0; // VERIF_SEED-derived start offset (multiple of 64)

    static void init()
    {
      if (base)
        return;
      void *p = mmap((void *)BASE, SIZE, PROT_READ | PROT_WRITE, MAP_PRIVATE | MAP_ANONYMOUS | MAP_NORESERVE | MAP_FIXED_NOREPLACE, -1, 0);
      if (p == MAP_FAILED || p != (void *)BASE)
      {
        std::fprintf(stderr, "arena: cannot map fixed region\n");
        std::abort();
      }
      base = (char *)p;
    }
    static inline bool owns(void *p) { return base && (char *)p >= base && (char *)p < base + SIZE; }
    static inline void *alloc(size_t n)
    {
      n = (n + 15) & ~size_t(15);
      if (off + n > SIZE)
      {
        std::fprintf(stderr, "arena: exhausted\n");
        std::abort();
      }
      void *r = base + off;
      off += n;
      if (off > high)
        high = off;
      return r;
    }
    // releases the pages touched by the last case so RSS stays small
    static void reset()
    {
      // zero what the last case touched: a read of uninitialised memory by the code under test then
      // sees the same bytes in every run of the same case
      if (high > (size_t(16) << 20))
        madvise(base, high, MADV_DONTNEED);
      else if (high)
        std::memset(base, 0, high);
      high = 0;
      off = salt;
    }
    struct Scope
    {
      Scope()
      {
        init();
        reset();
        arena_on = 1;
      }
      ~Scope() { arena_on = 0; }
    };
    struct Pause
    {
      int was;
      Pause() : was(arena_on) { arena_on = 0; }
      ~Pause() { arena_on = was; }
    };
  };
} // namespace vf

void *operator new(size_t n)
{
  if (vf::arena_on)
    return vf::Arena::alloc(n);
  void *p = std::malloc(n ? n : 1);
  if (!p)
    throw std::bad_alloc();
  return p;
}
void *operator new[](size_t n) { return operator new(n); }
void operator delete(void *p) noexcept
{
  if (!vf::Arena::owns(p))
    std::free(p);
}
void operator delete[](void *p) noexcept { operator delete(p); }
void operator delete(void *p, size_t) noexcept { operator delete(p); }
void operator delete[](void *p, size_t) noexcept { operator delete(p); }
