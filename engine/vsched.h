// Cooperative, deterministic scheduler over the pthread synchronisation entry points.
//
// The driver executable defines pthread_mutex_lock/unlock, pthread_cond_wait/signal/broadcast,
// pthread_create/join (link-time interposition: libstdc++'s std::mutex / condition_variable /
// thread and therefore smt::thread_pool end up here) and std::thread::hardware_concurrency().
// While sch::active is set exactly one managed thread runs at a time; every intercepted operation is
// a scheduling point at which the explorer picks the next thread among the enabled ones.
//   - a thread waiting for a mutex or in cond_wait is BLOCKED (not spinning)
//   - "no enabled thread" is a deadlock
//   - choices are read from sch::prefix, then default 0 (= keep running the current thread when it
//     is still enabled, else the lowest enabled id); every choice point is logged in sch::points
// Include in exactly one translation unit.  Link with -rdynamic -ldl -lpthread.
#pragma once
#include <cstdio>
#include <cstdlib>
#include <cstring>
#include <dlfcn.h>
#include <unistd.h>
#include <map>
#include <pthread.h>
#include <semaphore.h>
#include <string>
#include <thread>
#include <vector>
#include "arena_flag.h"

namespace sch
{
  enum St
  {
    RUNNABLE,
    BLOCKED_MUTEX,
    WAIT_CV,
    WAIT_JOIN,
    FINISHED
  };
  struct Th
  {
    int id;
    pthread_t real;
    St st = RUNNABLE;
    void *on = nullptr;             // mutex / cv / target thread
    pthread_mutex_t *reacq = nullptr; // mutex to re-acquire after a cond wait
    bool signalled = false;
    sem_t go;
    void *(*fn)(void *) = nullptr;
    void *arg = nullptr;
    void *ret = nullptr;
  };
  struct Point
  {
    int n_enabled;
    int chosen;
    bool cur_enabled;
  };

  inline bool active = false;
  inline std::vector<Th *> ths;
  inline int cur = 0;
  inline thread_local int my_id = -1;
  inline std::map<pthread_mutex_t *, int> owner; // absent or -1 = free
  inline std::vector<int> prefix;
  inline std::vector<Point> points;
  inline bool deadlock = false;
  inline unsigned pool_size = 2;
  inline unsigned long n_sched_points = 0;
  // the scheduler's own bookkeeping never lives in the per-execution arena; user code of every
  // managed thread runs with the arena switched to 'arena_user'
  inline int arena_user = 0;
  struct Guard
  {
    Guard() { vf::arena_on = 0; }
    ~Guard() { vf::arena_on = arena_user; }
  };

  // real functions
  typedef int (*mtx_fn)(pthread_mutex_t *);
  typedef int (*cw_fn)(pthread_cond_t *, pthread_mutex_t *);
  typedef int (*cs_fn)(pthread_cond_t *);
  typedef int (*create_fn)(pthread_t *, const pthread_attr_t *, void *(*)(void *), void *);
  typedef int (*join_fn)(pthread_t, void **);
  inline mtx_fn real_lock, real_unlock;
  inline cw_fn real_cwait;
  inline cs_fn real_csignal, real_cbroadcast;
  inline create_fn real_create;
  inline join_fn real_join;
  inline void init_real()
  {
    if (real_lock)
      return;
    real_lock = (mtx_fn)dlsym(RTLD_NEXT, "pthread_mutex_lock");
    real_unlock = (mtx_fn)dlsym(RTLD_NEXT, "pthread_mutex_unlock");
    real_cwait = (cw_fn)dlsym(RTLD_NEXT, "pthread_cond_wait");
    real_csignal = (cs_fn)dlsym(RTLD_NEXT, "pthread_cond_signal");
    real_cbroadcast = (cs_fn)dlsym(RTLD_NEXT, "pthread_cond_broadcast");
    real_create = (create_fn)dlsym(RTLD_NEXT, "pthread_create");
    real_join = (join_fn)dlsym(RTLD_NEXT, "pthread_join");
  }

  inline bool mutex_free(pthread_mutex_t *m)
  {
    auto it = owner.find(m);
    return it == owner.end() || it->second < 0;
  }
  inline bool enabled(const Th *t)
  {
    switch (t->st)
    {
    case RUNNABLE:
      return true;
    case BLOCKED_MUTEX:
      return mutex_free((pthread_mutex_t *)t->on);
    case WAIT_CV:
      return t->signalled && mutex_free(t->reacq);
    case WAIT_JOIN:
      return ((Th *)t->on)->st == FINISHED;
    default:
      return false;
    }
  }

  struct Deadlock
  {
  };

  // hands the processor to the chosen enabled thread; returns when this thread is scheduled again
  inline void reschedule(bool finishing = false)
  {
    Guard g;
    ++n_sched_points;
    Th *me = ths[my_id];
    std::vector<int> en;
    bool cur_en = !finishing && enabled(me);
    if (cur_en)
      en.push_back(my_id);
    for (auto *t : ths)
      if (t->id != my_id && enabled(t))
        en.push_back(t->id);
    if (en.empty())
    {
      if (finishing)
        return; // last thread ending
      deadlock = true;
      std::fprintf(stderr, "sched: deadlock - no enabled thread\n");
      // report through the exit status: the explorer treats it as an outcome
      _exit(77);
    }
    int choice = 0;
    if (en.size() > 1)
    {
      size_t k = points.size();
      if (k < prefix.size())
      {
        choice = prefix[k];
        if (choice < 0 || choice >= (int)en.size())
        {
          std::fprintf(stderr, "sched: replay divergence - choice %d of %zu at point %zu\n", choice, en.size(), k);
          _exit(78);
        }
      }
      points.push_back(Point{(int)en.size(), choice, cur_en});
    }
    int next = en[choice];
    if (next == my_id)
      return;
    cur = next;
    sem_post(&ths[next]->go);
    if (!finishing)
      sem_wait(&me->go);
  }

  inline void *trampoline(void *p)
  {
    Th *t = (Th *)p;
    my_id = t->id;
    sem_wait(&t->go); // wait to be scheduled for the first time
    vf::arena_on = arena_user;
    void *r = t->fn(t->arg);
    t->ret = r;
    t->st = FINISHED;
    reschedule(true); // hands over; 't' must not be touched afterwards
    return r;
  }

  // (re)starts a controlled execution on the calling thread
  inline void begin(const std::vector<int> &pfx)
  {
    init_real();
    for (auto *t : ths)
      delete t;
    ths.clear();
    owner.clear();
    points.clear();
    prefix = pfx;
    deadlock = false;
    Th *m = new Th();
    m->id = 0;
    m->real = pthread_self();
    sem_init(&m->go, 0, 0);
    ths.push_back(m);
    my_id = 0;
    cur = 0;
    active = true;
  }
  inline void end() { active = false; }
} // namespace sch

extern "C"
{
  int pthread_mutex_lock(pthread_mutex_t *m)
  {
    if (!sch::active || sch::my_id < 0)
    {
      sch::init_real();
      return sch::real_lock(m);
    }
    sch::Guard g;
    sch::Th *me = sch::ths[sch::my_id];
    sch::reschedule(); // scheduling point before the operation
    while (!sch::mutex_free(m))
    {
      me->st = sch::BLOCKED_MUTEX;
      me->on = m;
      sch::reschedule();
    }
    me->st = sch::RUNNABLE;
    sch::owner[m] = me->id;
    return 0;
  }
  int pthread_mutex_unlock(pthread_mutex_t *m)
  {
    if (!sch::active || sch::my_id < 0)
    {
      sch::init_real();
      return sch::real_unlock(m);
    }
    sch::Guard g;
    sch::owner[m] = -1;
    return 0;
  }
  int pthread_cond_wait(pthread_cond_t *c, pthread_mutex_t *m)
  {
    if (!sch::active || sch::my_id < 0)
    {
      sch::init_real();
      return sch::real_cwait(c, m);
    }
    sch::Guard g;
    sch::Th *me = sch::ths[sch::my_id];
    sch::owner[m] = -1;
    me->st = sch::WAIT_CV;
    me->on = c;
    me->reacq = m;
    me->signalled = false;
    sch::reschedule();
    me->st = sch::RUNNABLE;
    sch::owner[m] = me->id;
    return 0;
  }
  int pthread_cond_signal(pthread_cond_t *c)
  {
    if (!sch::active || sch::my_id < 0)
    {
      sch::init_real();
      return sch::real_csignal(c);
    }
    sch::Guard g;
    sch::reschedule();
    for (auto *t : sch::ths)
      if (t->st == sch::WAIT_CV && t->on == c && !t->signalled)
      {
        t->signalled = true; // the lowest-numbered waiter (POSIX leaves the choice open; see DESIGN.md)
        break;
      }
    return 0;
  }
  int pthread_cond_broadcast(pthread_cond_t *c)
  {
    if (!sch::active || sch::my_id < 0)
    {
      sch::init_real();
      return sch::real_cbroadcast(c);
    }
    sch::Guard g;
    sch::reschedule();
    for (auto *t : sch::ths)
      if (t->st == sch::WAIT_CV && t->on == c)
        t->signalled = true;
    return 0;
  }
  int pthread_create(pthread_t *th, const pthread_attr_t *attr, void *(*fn)(void *), void *arg)
  {
    sch::init_real();
    if (!sch::active || sch::my_id < 0)
      return sch::real_create(th, attr, fn, arg);
    sch::Guard g;
    sch::Th *t = new sch::Th();
    t->id = (int)sch::ths.size();
    t->fn = fn;
    t->arg = arg;
    sem_init(&t->go, 0, 0);
    sch::ths.push_back(t);
    int r = sch::real_create(&t->real, attr, sch::trampoline, t);
    *th = t->real;
    return r;
  }
  int pthread_join(pthread_t th, void **ret)
  {
    sch::init_real();
    if (!sch::active || sch::my_id < 0)
      return sch::real_join(th, ret);
    sch::Guard g;
    sch::Th *me = sch::ths[sch::my_id];
    sch::Th *tg = nullptr;
    for (auto *t : sch::ths)
      if (pthread_equal(t->real, th) && t->id != 0)
        tg = t;
    if (!tg)
      return sch::real_join(th, ret);
    sch::reschedule();
    while (tg->st != sch::FINISHED)
    {
      me->st = sch::WAIT_JOIN;
      me->on = tg;
      sch::reschedule();
    }
    me->st = sch::RUNNABLE;
    return sch::real_join(th, ret);
  }
}

// pool size under test
unsigned int std::thread::hardware_concurrency() noexcept { return sch::pool_size; }
