// Scenarios shared by the parallel (schedmc) and sequential (seqref) drivers of C20.
// Each scenario builds a small LRA network and performs calls that pivot; it returns the canonical
// observable state of the theory.
#pragma once
#include "lra_theory.h"
#include "lra_constraint.h"
#include "clause.h"
#include <algorithm>
#include <sstream>

namespace scen
{
  using namespace smt;

  inline std::string canon(sat_core &sat, lra_theory &th, const std::vector<bool> &verdicts)
  {
    std::ostringstream o;
    o << "verdicts:";
    for (bool v : verdicts)
      o << (v ? "T" : "F");
    o << " tableau:";
    for (auto &[v, r] : th.tableau)
      o << "x" << v << "=" << to_string(r->l) << ";";
    o << " watches:";
    for (size_t v = 0; v < th.t_watches.size(); ++v)
    {
      std::vector<var> bs;
      for (auto *r : th.t_watches[v])
        bs.push_back(r->x);
      std::sort(bs.begin(), bs.end());
      o << "x" << v << "{";
      for (auto b : bs)
        o << b << ",";
      o << "}";
    }
    o << " vals:";
    for (size_t v = 0; v < th.vals.size(); ++v)
      o << to_string(th.value(v)) << "[" << to_string(th.lb(v)) << "," << to_string(th.ub(v)) << "];";
    o << " assigns:";
    for (size_t v = 1; v < sat.assigns.size(); ++v)
      o << (sat.assigns[v] == True ? 'T' : sat.assigns[v] == False ? 'F'
                                                                   : 'U');
    // learnt clauses as a sorted set (their order depends on hash iteration even sequentially)
    std::vector<std::string> cls;
    for (auto *c : sat.constrs)
    {
      std::vector<std::string> ls;
      for (auto &l : static_cast<clause *>(c)->lits)
        ls.push_back(to_string(l));
      std::sort(ls.begin(), ls.end());
      std::string s;
      for (auto &x : ls)
        s += x + " ";
      cls.push_back(s);
    }
    std::sort(cls.begin(), cls.end());
    o << " clauses:";
    for (auto &c : cls)
      o << "(" << c << ")";
    return o.str();
  }

  static const int N_SCEN = 7;

  // after_pivot(th) is called right after every call that may pivot (the parallel driver checks pool quiescence there)
  template <class F>
  inline std::string run(int id, sat_core &sat, F after_call)
  {
    lra_theory th(sat);
    std::vector<bool> v;
    auto L = [](var x, long c = 1)
    { return lin(x, rational(c)); };
    switch (id)
    {
    case 0:
    { // direct pivot: two other rows contain the entering variable, disjoint other columns
      var x = th.new_var(), y = th.new_var(), z = th.new_var();
      var s1 = th.new_var(L(x) + L(y)), s2 = th.new_var(L(x) - L(z)), s3 = th.new_var(L(x, 2) + L(y) + L(z));
      (void)s2;
      (void)s3;
      th.pivot(s1, x);
      after_call(th);
      break;
    }
    case 1:
    { // direct pivot: three rows share the entering variable and other columns; one coefficient cancels to zero
      var x = th.new_var(), y = th.new_var(), z = th.new_var();
      var s1 = th.new_var(L(x) + L(y)), s2 = th.new_var(L(x) + L(y, -1) + L(z)), s3 = th.new_var(L(x, -1) + L(y)), s4 = th.new_var(L(x, 3) + L(z, 2));
      (void)s2;
      (void)s3;
      (void)s4;
      th.pivot(s1, x); // x = s1 - y : s3 = -s1 + 2y ; s2 = s1 - 2y + z ; s4 = 3 s1 - 3 y + 2 z
      after_call(th);
      th.pivot(s3, y);
      after_call(th);
      break;
    }
    case 2:
    { // API: root constraints whose assertion forces a pivot
      var x = th.new_var(), y = th.new_var();
      lit a = th.new_geq(L(x) + L(y), lin(rational(2)));
      lit b = th.new_leq(L(x) - L(y), lin(rational(0)));
      lit c = th.new_leq(L(x, 2) + L(y), lin(rational(10)));
      v.push_back(sat.new_clause({a}) && sat.propagate());
      after_call(th);
      v.push_back(sat.new_clause({b}) && sat.propagate());
      after_call(th);
      v.push_back(sat.new_clause({c}) && sat.propagate());
      after_call(th);
      break;
    }
    case 3:
    { // API: decisions, a conflict and a backjump, with shared sub-expressions
      var x = th.new_var(), y = th.new_var();
      lit a = th.new_geq(L(x) + L(y), lin(rational(4)));
      lit b = th.new_leq(L(x), lin(rational(1)));
      lit c = th.new_leq(L(y), lin(rational(1)));
      lit d = th.new_geq(L(x) - L(y), lin(rational(1)));
      v.push_back(sat.propagate());
      v.push_back(sat.assume(a));
      after_call(th);
      v.push_back(sat.assume(b));
      after_call(th);
      if (sat.value(c) == Undefined)
      {
        v.push_back(sat.assume(c)); // infeasible with a and b: conflict, learnt clause, backjump
        after_call(th);
      }
      if (sat.value(d) == Undefined)
      {
        v.push_back(sat.assume(d));
        after_call(th);
      }
      break;
    }
    case 4:
    { // API: four variables, rows sharing several columns, two pivots at root
      var x = th.new_var(), y = th.new_var(), z = th.new_var(), w = th.new_var();
      lit a = th.new_geq(L(x) + L(y) + L(z), lin(rational(3)));
      lit b = th.new_geq(L(x) + L(w), lin(rational(2)));
      lit c = th.new_leq(L(x) + L(y) - L(w), lin(rational(-1)));
      lit d = th.new_leq(L(x), lin(rational(0)));
      v.push_back(sat.new_clause({a}) && sat.new_clause({b}) && sat.propagate());
      after_call(th);
      v.push_back(sat.new_clause({c}) && sat.propagate());
      after_call(th);
      v.push_back(sat.new_clause({d}) && sat.propagate());
      after_call(th);
      break;
    }
    case 5:
    { // direct pivot with a single other row (one task) and a row that does not contain the entering variable
      var x = th.new_var(), y = th.new_var(), z = th.new_var();
      var s1 = th.new_var(L(x) + L(y)), s2 = th.new_var(L(x, 2) - L(z)), s3 = th.new_var(L(y) + L(z));
      (void)s2;
      (void)s3;
      th.pivot(s1, x);
      after_call(th);
      break;
    }
    default:
    { // infeasible at root: verdict false
      var x = th.new_var(), y = th.new_var();
      lit a = th.new_geq(L(x) + L(y), lin(rational(4)));
      lit b = th.new_leq(L(x), lin(rational(1)));
      lit c = th.new_leq(L(y), lin(rational(1)));
      v.push_back(sat.new_clause({a}) && sat.propagate());
      after_call(th);
      v.push_back(sat.new_clause({b}) && sat.propagate());
      after_call(th);
      v.push_back(sat.new_clause({c}) && sat.propagate());
      after_call(th);
      break;
    }
    }
    return canon(sat, th, v);
  }
} // namespace scen
