// Reference exact arithmetic: Q (rationals with +-infinity on __int128) and Qe = Q + Q*eps.
// Deliberately boring; shares no code with smt::rational.
#pragma once
#include <cstdint>
#include <string>

namespace ref
{
  typedef __int128 Z;
  inline Z zabs(Z a) { return a < 0 ? -a : a; }
  inline Z zgcd(Z a, Z b)
  {
    a = zabs(a);
    b = zabs(b);
    while (b)
    {
      Z t = a % b;
      a = b;
      b = t;
    }
    return a;
  }
  inline std::string zstr(Z v)
  {
    if (v == 0)
      return "0";
    bool neg = v < 0;
    if (neg)
      v = -v;
    std::string s;
    while (v)
    {
      s.insert(s.begin(), char('0' + int(v % 10)));
      v /= 10;
    }
    return neg ? "-" + s : s;
  }

  struct Q
  {
    Z n = 0, d = 1; // reduced, d > 0; +-inf is (+-1, 0)
    bool valid = true;
    Q() {}
    Q(Z nn) : n(nn), d(1) {}
    Q(Z nn, Z dd) : n(nn), d(dd) { norm(); }
    static Q inf(int sign)
    {
      Q q;
      q.n = sign;
      q.d = 0;
      return q;
    }
    static Q nan()
    {
      Q q;
      q.valid = false;
      return q;
    }
    void norm()
    {
      if (d == 0)
      {
        if (n == 0)
          valid = false;
        else
          n = n > 0 ? 1 : -1;
        return;
      }
      if (d < 0)
      {
        n = -n;
        d = -d;
      }
      Z g = zgcd(n, d);
      if (g > 1)
      {
        n /= g;
        d /= g;
      }
      if (n == 0)
        d = 1;
    }
    bool is_inf() const { return d == 0; }
    bool is_zero() const { return n == 0; }
    int sgn() const { return n > 0 ? 1 : n < 0 ? -1 : 0; }
  };
  // undefined combinations give an invalid Q (the harness skips them)
  inline Q operator-(const Q &a)
  {
    Q r = a;
    r.n = -r.n;
    return r;
  }
  inline Q operator+(const Q &a, const Q &b)
  {
    if (!a.valid || !b.valid)
      return Q::nan();
    if (a.is_inf() || b.is_inf())
    {
      if (a.is_inf() && b.is_inf())
        return a.n == b.n ? a : Q::nan();
      return a.is_inf() ? a : b;
    }
    return Q(a.n * b.d + b.n * a.d, a.d * b.d);
  }
  inline Q operator-(const Q &a, const Q &b) { return a + (-b); }
  inline Q operator*(const Q &a, const Q &b)
  {
    if (!a.valid || !b.valid)
      return Q::nan();
    if (a.is_inf() || b.is_inf())
    {
      if (a.is_zero() || b.is_zero())
        return Q::nan();
      return Q::inf(a.sgn() * b.sgn());
    }
    return Q(a.n * b.n, a.d * b.d);
  }
  inline Q operator/(const Q &a, const Q &b)
  {
    if (!a.valid || !b.valid || b.is_zero())
      return Q::nan();
    if (b.is_inf())
      return a.is_inf() ? Q::nan() : Q(0);
    if (a.is_inf())
      return Q::inf(a.sgn() * b.sgn());
    return Q(a.n * b.d, a.d * b.n);
  }
  inline int cmp(const Q &a, const Q &b)
  { // total order on the extended rationals
    if (a.is_inf() || b.is_inf())
    {
      int x = a.is_inf() ? a.sgn() * 2 : 0, y = b.is_inf() ? b.sgn() * 2 : 0;
      if (!a.is_inf())
        x = 0;
      if (!b.is_inf())
        y = 0;
      return x < y ? -1 : x > y ? 1 : 0;
    }
    Z l = a.n * b.d, r = b.n * a.d;
    return l < r ? -1 : l > r ? 1 : 0;
  }
  inline bool operator==(const Q &a, const Q &b) { return cmp(a, b) == 0; }
  inline bool operator!=(const Q &a, const Q &b) { return cmp(a, b) != 0; }
  inline bool operator<(const Q &a, const Q &b) { return cmp(a, b) < 0; }
  inline bool operator<=(const Q &a, const Q &b) { return cmp(a, b) <= 0; }
  inline bool operator>(const Q &a, const Q &b) { return cmp(a, b) > 0; }
  inline bool operator>=(const Q &a, const Q &b) { return cmp(a, b) >= 0; }
  inline std::string str(const Q &q)
  {
    if (!q.valid)
      return "nan";
    if (q.is_inf())
      return q.n > 0 ? "+inf" : "-inf";
    return q.d == 1 ? zstr(q.n) : zstr(q.n) + "/" + zstr(q.d);
  }

  // dual numbers r + e*eps, ordered lexicographically
  struct Qe
  {
    Q r, e;
    Qe() {}
    Qe(const Q &rr) : r(rr) {}
    Qe(const Q &rr, const Q &ee) : r(rr), e(ee) {}
    bool valid() const { return r.valid && e.valid; }
  };
  inline Qe operator-(const Qe &a) { return Qe(-a.r, -a.e); }
  inline Qe operator+(const Qe &a, const Qe &b) { return Qe(a.r + b.r, a.e + b.e); }
  inline Qe operator-(const Qe &a, const Qe &b) { return Qe(a.r - b.r, a.e - b.e); }
  inline Qe operator*(const Qe &a, const Q &b) { return Qe(a.r * b, a.e * b); }
  inline Qe operator/(const Qe &a, const Q &b) { return Qe(a.r / b, a.e / b); }
  inline int cmp(const Qe &a, const Qe &b)
  {
    int c = cmp(a.r, b.r);
    return c ? c : cmp(a.e, b.e);
  }
  inline bool operator==(const Qe &a, const Qe &b) { return cmp(a, b) == 0; }
  inline bool operator!=(const Qe &a, const Qe &b) { return cmp(a, b) != 0; }
  inline bool operator<(const Qe &a, const Qe &b) { return cmp(a, b) < 0; }
  inline bool operator<=(const Qe &a, const Qe &b) { return cmp(a, b) <= 0; }
  inline bool operator>(const Qe &a, const Qe &b) { return cmp(a, b) > 0; }
  inline bool operator>=(const Qe &a, const Qe &b) { return cmp(a, b) >= 0; }
  inline std::string str(const Qe &q)
  {
    if (q.e.is_zero())
      return str(q.r);
    return str(q.r) + (q.e.sgn() > 0 ? "+" : "") + str(q.e) + "eps";
  }
} // namespace ref
