// Reference decision procedures for the theory fragments (boring on purpose):
//   fm:: Fourier-Motzkin elimination over <= 6 rational variables with strict / non-strict rows
//   fw:: Floyd-Warshall closure with Qe (rational + eps) weights, negative-cycle detection
#pragma once
#include "refq.h"
#include <vector>

namespace fm
{
  using ref::Q;
  using ref::Qe;
  struct Row
  {
    std::vector<Q> a; // coefficients
    Q b;              // sum a_j x_j <= b   (or < b when strict)
    bool strict = false;
  };
  typedef std::vector<Row> Sys;

  inline Sys eliminate(const Sys &s, size_t j)
  {
    Sys out;
    std::vector<const Row *> pos, neg;
    for (auto &r : s)
      if (r.a[j].sgn() > 0)
        pos.push_back(&r);
      else if (r.a[j].sgn() < 0)
        neg.push_back(&r);
      else
        out.push_back(r);
    for (auto p : pos)
      for (auto n : neg)
      {
        Row r;
        Q fp = Q(1) / p->a[j], fn = Q(1) / (-n->a[j]);
        r.a.resize(p->a.size());
        for (size_t k = 0; k < r.a.size(); ++k)
          r.a[k] = p->a[k] * fp + n->a[k] * fn;
        r.a[j] = Q(0);
        r.b = p->b * fp + n->b * fn;
        r.strict = p->strict || n->strict;
        out.push_back(r);
      }
    return out;
  }
  inline bool trivially_false(const Row &r)
  {
    for (auto &c : r.a)
      if (!c.is_zero())
        return false;
    return r.strict ? !(Q(0) < r.b) : !(Q(0) <= r.b);
  }
  inline bool feasible(Sys s, size_t nvars)
  {
    for (size_t j = 0; j < nvars; ++j)
    {
      for (auto &r : s)
        if (trivially_false(r))
          return false;
      s = eliminate(s, j);
    }
    for (auto &r : s)
      if (trivially_false(r))
        return false;
    return true;
  }
  // tightest interval of the linear form obj over the (feasible) system: returns lower/upper as Qe
  // (a strict bound v is reported as v+eps / v-eps), +-inf when unbounded
  struct Interval
  {
    Qe lo, hi;
  };
  inline Interval range(const Sys &s0, size_t nvars, const std::vector<Q> &obj, const Q &obj_const)
  {
    // introduce t = obj as variable index nvars:  t - obj <= 0, obj - t <= 0
    Sys s;
    for (auto r : s0)
    {
      r.a.resize(nvars + 1, Q(0));
      s.push_back(r);
    }
    Row r1, r2;
    r1.a.assign(nvars + 1, Q(0));
    r2.a.assign(nvars + 1, Q(0));
    for (size_t j = 0; j < nvars; ++j)
    {
      r1.a[j] = -obj[j];
      r2.a[j] = obj[j];
    }
    r1.a[nvars] = Q(1);
    r1.b = obj_const;
    r2.a[nvars] = Q(-1);
    r2.b = -obj_const;
    s.push_back(r1);
    s.push_back(r2);
    for (size_t j = 0; j < nvars; ++j)
      s = eliminate(s, j);
    Interval iv;
    iv.lo = Qe(Q::inf(-1));
    iv.hi = Qe(Q::inf(1));
    for (auto &r : s)
    {
      const Q &a = r.a[nvars];
      if (a.sgn() > 0)
      { // t <= b/a
        Qe v(r.b / a, r.strict ? Q(-1) : Q(0));
        if (v < iv.hi)
          iv.hi = v;
      }
      else if (a.sgn() < 0)
      { // t >= b/a
        Qe v(r.b / a, r.strict ? Q(1) : Q(0));
        if (v > iv.lo)
          iv.lo = v;
      }
    }
    return iv;
  }
} // namespace fm

namespace fw
{
  using ref::Q;
  using ref::Qe;
  struct Closure
  {
    size_t n;
    std::vector<std::vector<Qe>> d;
    bool negative_cycle = false;
  };
  struct Edge
  {
    size_t from, to;
    Qe w; // to - from <= w
  };
  inline Closure close(size_t n, const std::vector<Edge> &edges)
  {
    Closure c;
    c.n = n;
    c.d.assign(n, std::vector<Qe>(n, Qe(Q::inf(1))));
    for (size_t i = 0; i < n; ++i)
      c.d[i][i] = Qe(Q(0));
    for (auto &e : edges)
      if (e.w < c.d[e.from][e.to])
        c.d[e.from][e.to] = e.w;
    for (size_t k = 0; k < n; ++k)
      for (size_t i = 0; i < n; ++i)
        for (size_t j = 0; j < n; ++j)
        {
          if (c.d[i][k].r.is_inf() || c.d[k][j].r.is_inf())
            continue;
          Qe v = c.d[i][k] + c.d[k][j];
          if (v < c.d[i][j])
            c.d[i][j] = v;
        }
    for (size_t i = 0; i < n; ++i)
      if (c.d[i][i] < Qe(Q(0)))
        c.negative_cycle = true;
    return c;
  }
} // namespace fw
