// Truth tables as bitsets: a TT over k >= 6 variables is 2^k bits; bit i is the value of the
// function under the assignment whose variable j has value (i >> j) & 1.
#pragma once
#include <cstdint>
#include <vector>

namespace tt
{
  struct TT
  {
    int k = 6;
    std::vector<uint64_t> w;
    TT() {}
    TT(int kk, bool v) : k(kk < 6 ? 6 : kk), w(size_t(1) << (k - 6), v ? ~uint64_t(0) : 0) {}
    static TT var(int k, int j)
    {
      TT t(k, false);
      static const uint64_t pat[6] = {0xAAAAAAAAAAAAAAAAull, 0xCCCCCCCCCCCCCCCCull, 0xF0F0F0F0F0F0F0F0ull, 0xFF00FF00FF00FF00ull, 0xFFFF0000FFFF0000ull, 0xFFFFFFFF00000000ull};
      if (j < 6)
        for (auto &x : t.w)
          x = pat[j];
      else
      {
        size_t blk = size_t(1) << (j - 6);
        for (size_t i = 0; i < t.w.size(); ++i)
          t.w[i] = ((i / blk) & 1) ? ~uint64_t(0) : 0;
      }
      return t;
    }
    TT operator&(const TT &o) const
    {
      TT r = *this;
      for (size_t i = 0; i < w.size(); ++i)
        r.w[i] &= o.w[i];
      return r;
    }
    TT operator|(const TT &o) const
    {
      TT r = *this;
      for (size_t i = 0; i < w.size(); ++i)
        r.w[i] |= o.w[i];
      return r;
    }
    TT operator^(const TT &o) const
    {
      TT r = *this;
      for (size_t i = 0; i < w.size(); ++i)
        r.w[i] ^= o.w[i];
      return r;
    }
    TT operator~() const
    {
      TT r = *this;
      for (auto &x : r.w)
        x = ~x;
      return r;
    }
    TT &operator&=(const TT &o)
    {
      for (size_t i = 0; i < w.size(); ++i)
        w[i] &= o.w[i];
      return *this;
    }
    TT &operator|=(const TT &o)
    {
      for (size_t i = 0; i < w.size(); ++i)
        w[i] |= o.w[i];
      return *this;
    }
    bool none() const
    {
      for (auto x : w)
        if (x)
          return false;
      return true;
    }
    bool all() const
    {
      for (auto x : w)
        if (~x)
          return false;
      return true;
    }
    uint64_t count() const
    {
      uint64_t c = 0;
      for (auto x : w)
        c += __builtin_popcountll(x);
      return c;
    }
    // index of the first set bit (an assignment), or -1
    long first() const
    {
      for (size_t i = 0; i < w.size(); ++i)
        if (w[i])
          return long(i * 64 + __builtin_ctzll(w[i]));
      return -1;
    }
    // existential quantification of variable j (result does not depend on j)
    TT exists(int j) const
    {
      TT r = *this;
      if (j < 6)
      {
        int sh = 1 << j;
        static const uint64_t pat[6] = {0xAAAAAAAAAAAAAAAAull, 0xCCCCCCCCCCCCCCCCull, 0xF0F0F0F0F0F0F0F0ull, 0xFF00FF00FF00FF00ull, 0xFFFF0000FFFF0000ull, 0xFFFFFFFF00000000ull};
        for (auto &x : r.w)
        {
          uint64_t lo = (x & ~pat[j]) | ((x & pat[j]) >> sh);
          x = lo | (lo << sh);
        }
      }
      else
      {
        size_t blk = size_t(1) << (j - 6);
        for (size_t i = 0; i < r.w.size(); ++i)
          if (!((i / blk) & 1))
          {
            uint64_t v = r.w[i] | r.w[i + blk];
            r.w[i] = v;
            r.w[i + blk] = v;
          }
      }
      return r;
    }
  };
} // namespace tt
