// Reading the clause database of a live smt::sat_core (needs -fno-access-control).
#pragma once
#include "clause.h"
#include "sat_core.h"
#include "tt.h"
#include <string>
#include <vector>

namespace nr
{
  using smt::lit;
  typedef std::vector<std::vector<lit>> Cnf;

  inline std::string ls(const lit &l) { return (sign(l) ? "+" : "-") + std::to_string(variable(l)); }
  inline std::string cs(const std::vector<lit> &c)
  {
    std::string s = "[";
    for (size_t i = 0; i < c.size(); ++i)
      s += (i ? "," : "") + ls(c[i]);
    return s + "]";
  }

  // all clauses currently in the database + one unit per variable assigned at level 0
  inline Cnf read_cnf(const smt::sat_core &s)
  {
    Cnf f;
    for (auto *c : s.constrs)
      f.push_back(static_cast<smt::clause *>(c)->lits);
    for (size_t v = 0; v < s.assigns.size(); ++v)
      if (s.assigns[v] != smt::Undefined && s.level[v] == 0)
        f.push_back({lit(v, s.assigns[v] == smt::True)});
    return f;
  }
  inline tt::TT col(int k, const lit &l)
  {
    tt::TT t = tt::TT::var(k, (int)variable(l));
    return sign(l) ? t : ~t;
  }
  inline tt::TT clause_tt(int k, const std::vector<lit> &c)
  {
    tt::TT t(k, false);
    for (auto &l : c)
      t |= col(k, l);
    return t;
  }
  inline tt::TT cnf_tt(int k, const Cnf &f)
  {
    tt::TT t(k, true);
    for (auto &c : f)
      t &= clause_tt(k, c);
    return t;
  }
  inline std::string assignment_str(long idx, int nvars)
  {
    std::string s;
    for (int v = 1; v < nvars; ++v)
      s += std::string(v > 1 ? " " : "") + (((idx >> v) & 1) ? "+" : "-") + std::to_string(v);
    return s;
  }
} // namespace nr
