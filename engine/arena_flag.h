// Shared switch between engine/arena.h (deterministic allocator) and engine/driver.h (whose
// bookkeeping must never be allocated inside the arena, because the arena is reset per case).
#pragma once
namespace vf
{
  inline int arena_on = 0;
  struct NoArena
  {
    int was;
    NoArena() : was(arena_on) { arena_on = 0; }
    ~NoArena() { arena_on = was; }
  };
} // namespace vf
